"""E1 - program model of /repo/src/dznpy: resolved syntax, class table, light types, call graph.

Nothing under /repo is imported or executed; everything is derived from `ast` parses of the
current working tree.
"""
from __future__ import annotations

import ast
import os
from dataclasses import dataclass, field
from typing import Any, Dict, Iterable, List, Optional, Set, Tuple

from .report import AnalysisError

PKG = 'dznpy'

# ---------------------------------------------------------------------------------------------
# types (light): tuples
#   ('cls', qualified class name) ('list', T) ('set', T) ('dict', K, V) ('opt', T) ('union', (T..))
#   ('str',) ('int',) ('bool',) ('none',) ('tuple', (T..)) ('any',) ('func', FuncInfo) ('type', clsname)
# ---------------------------------------------------------------------------------------------
ANY = ('any',)
BOTTOM = ('bottom',)     # "no information yet" (cyclic definition); ignored by union
STR = ('str',)
INT = ('int',)
BOOL = ('bool',)
NONE = ('none',)


def t_list(t): return ('list', t)
def t_set(t): return ('set', t)
def t_opt(t): return t if t[0] in ('opt', 'any', 'none') else ('opt', t)
def t_cls(name): return ('cls', name)


def strip_opt(t):
    return t[1] if t[0] == 'opt' else t


def union(ts: Iterable[tuple]) -> tuple:
    flat = []
    optional = False
    for t in ts:
        if t == BOTTOM:
            continue
        if t[0] == 'opt':
            optional = True
            t = t[1]
        if t[0] == 'union':
            flat.extend(t[1])
        else:
            flat.append(t)
    if optional:
        flat.append(NONE)
    uniq = []
    for t in flat:
        if t not in uniq:
            uniq.append(t)
    if not uniq:
        return ANY
    if ANY in uniq:
        return ANY
    if len(uniq) == 1:
        return uniq[0]
    if NONE in uniq:
        rest = [t for t in uniq if t != NONE]
        return t_opt(union(rest))
    return ('union', tuple(uniq))


@dataclass
class FuncInfo:
    name: str
    qualname: str            # e.g. "Builder.build", "create_cpp_portitf.sts"
    module: 'Module'
    node: ast.FunctionDef
    cls: Optional['ClassInfo'] = None
    parent: Optional['FuncInfo'] = None
    is_property: bool = False
    is_setter: bool = False
    is_static: bool = False
    is_classmethod: bool = False
    nested: Dict[str, 'FuncInfo'] = field(default_factory=dict)

    @property
    def fq(self) -> str:
        return f'{self.module.name}:{self.qualname}'

    def params(self) -> List[ast.arg]:
        a = self.node.args
        return list(a.posonlyargs) + list(a.args) + list(a.kwonlyargs)

    def __hash__(self):
        return hash(self.fq)

    def __eq__(self, other):
        return isinstance(other, FuncInfo) and other.fq == self.fq


@dataclass
class ClassInfo:
    name: str
    module: 'Module'
    node: ast.ClassDef
    bases: List[str] = field(default_factory=list)          # qualified names where resolvable else raw
    is_dataclass: bool = False
    frozen: bool = False
    is_enum: bool = False
    is_exception: bool = False
    fields: Dict[str, Tuple[Optional[ast.expr], Optional[ast.expr]]] = field(default_factory=dict)
    methods: Dict[str, FuncInfo] = field(default_factory=dict)
    setters: Dict[str, FuncInfo] = field(default_factory=dict)
    enum_members: Dict[str, ast.expr] = field(default_factory=dict)

    @property
    def fq(self) -> str:
        return f'{self.module.name}.{self.name}'


@dataclass
class Module:
    name: str
    path: str
    src: str
    tree: ast.Module
    is_pkg: bool
    imports: Dict[str, Tuple[str, Optional[str]]] = field(default_factory=dict)  # local -> (module, symbol)
    classes: Dict[str, ClassInfo] = field(default_factory=dict)
    functions: Dict[str, FuncInfo] = field(default_factory=dict)
    assigns: Dict[str, ast.expr] = field(default_factory=dict)
    assign_nodes: Dict[str, ast.stmt] = field(default_factory=dict)

    @property
    def short(self) -> str:
        return self.name[len(PKG) + 1:] if self.name.startswith(PKG + '.') else self.name


def _only_value_objects_before(whole: ast.expr, load: ast.Name, moved: ast.expr) -> bool:
    """Moving `moved` to the position of `load` inside `whole` changes the evaluation order only with respect to the calls that
    are evaluated before that position.  True when each of those is the construction of a value object (`Comment(text)`:
    capitalised callee, arguments plain names / constants) from names that `moved` does not mention - neither can observe
    the other.  Calls that enclose the position are evaluated after their arguments either way; calls to the right of it are
    evaluated after `moved` either way."""
    ancestors = set()

    def mark(n, chain):
        if n is load:
            ancestors.update(id(c) for c in chain)
            return True
        return any(mark(c, chain + [n]) for c in ast.iter_child_nodes(n))
    if not mark(whole, []):
        return False
    # a helper object stays a named local: `h = Helper(x); return C(h.items())` is not turned into `Helper(x).items()`
    for c in ast.walk(whole):
        if isinstance(c, ast.Call) and isinstance(c.func, ast.Attribute) and c.func.value is load:
            return False
    moved_names = {x.id for x in ast.walk(moved) if isinstance(x, ast.Name)}
    pos = (getattr(load, 'lineno', 0), getattr(load, 'col_offset', 0))
    for c in ast.walk(whole):
        if not isinstance(c, ast.Call) or id(c) in ancestors:
            continue
        if (getattr(c, 'lineno', 0), getattr(c, 'col_offset', 0)) > pos:
            continue
        if not (isinstance(c.func, ast.Name) and c.func.id[:1].isupper() and not c.keywords and
                all(isinstance(x, (ast.Name, ast.Constant)) for x in c.args)):
            return False
        if any(isinstance(x, ast.Name) and x.id in moved_names for x in c.args):
            return False
        if any(isinstance(x, ast.Call) and x is not c for x in ast.walk(c)):
            return False
    return True


def normalise_tree(tree: ast.AST) -> None:
    """Semantics-preserving normal form the rules are written against (so that they do not depend on these choices):
       N1  `x = E` immediately followed by `return x`, x used nowhere else   ->  `return E`
       N2  `if not A: B else: C` (a real else, not an elif)                  ->  `if A: C else: B`
       N3  'a' + f'{x}' + 'b'                                                ->  f'a{x}b'
       N4  `CONST == x` (constant-like operand on the left of == != is is not) ->  `x == CONST`
       N5  (after indexing) keyword arguments of dataclass constructors that continue the positional ones -> positional
       N6  `for ...: if c: continue; REST`                                   ->  `for ...: if not c: REST`
       N15 `match S: case A: X  case _: Z` (value / or / singleton / bare class patterns, guards) -> `if S == A: X else: Z`
    Node positions of the kept nodes are unchanged."""
    for fn in [n for n in ast.walk(tree) if isinstance(n, (ast.FunctionDef, ast.AsyncFunctionDef))]:
        counts: Dict[str, int] = {}
        for n in ast.walk(fn):
            if isinstance(n, ast.Name):
                counts[n.id] = counts.get(n.id, 0) + 1
        pairs: Dict[str, int] = {}
        blocks = []
        for n in ast.walk(fn):
            for fld in ('body', 'orelse', 'finalbody'):
                blk = getattr(n, fld, None)
                if isinstance(blk, list) and blk and isinstance(blk[0], ast.stmt):
                    blocks.append(blk)
            if isinstance(n, ast.Try):
                for h in n.handlers:
                    blocks.append(h.body)
        def pure_(e) -> bool:
            return not any(isinstance(x, (ast.Call, ast.Await, ast.Yield, ast.YieldFrom, ast.NamedExpr, ast.Lambda, ast.ListComp,
                                          ast.SetComp, ast.DictComp, ast.GeneratorExp)) for x in ast.walk(e))

        # N1 (generalised): `x = E` immediately followed by `return F(x)` with x read exactly once there and nowhere else
        #   ->  `return F(E)`   when E or the rest of F is free of calls (evaluation order cannot matter); applied repeatedly
        again = True
        while again:
            again = False
            counts = {}
            for n in ast.walk(fn):
                if isinstance(n, ast.Name):
                    counts[n.id] = counts.get(n.id, 0) + 1
            for blk in blocks:
                for i in range(len(blk) - 1):
                    a, r = blk[i], blk[i + 1]
                    if isinstance(a, ast.Assign) and len(a.targets) == 1 and isinstance(a.targets[0], ast.Name) and \
                            isinstance(r, ast.Return) and r.value is not None:
                        nm = a.targets[0].id
                        loads = [x for x in ast.walk(r.value) if isinstance(x, ast.Name) and x.id == nm]
                        if len(loads) != 1 or counts.get(nm, 0) != 2:
                            continue
                        if any(isinstance(x, (ast.Lambda, ast.ListComp, ast.SetComp, ast.DictComp, ast.GeneratorExp))
                               and any(y is loads[0] for y in ast.walk(x)) for x in ast.walk(r.value)):
                            continue        # would move the evaluation into a deferred / repeated context
                        rest_pure = all(isinstance(x, (ast.Name, ast.Attribute, ast.Constant, ast.UnaryOp, ast.BoolOp, ast.Compare,
                                                       ast.BinOp, ast.IfExp, ast.Tuple, ast.List, ast.JoinedStr, ast.FormattedValue,
                                                       ast.Subscript, ast.expr_context, ast.operator, ast.unaryop, ast.boolop,
                                                       ast.cmpop, ast.Starred, ast.keyword, ast.Call))
                                        for x in ast.walk(r.value))
                        n_calls = sum(isinstance(x, ast.Call) for x in ast.walk(r.value))
                        if not (pure_(a.value) or n_calls <= 1 and rest_pure or
                                rest_pure and _only_value_objects_before(r.value, loads[0], a.value)):
                            continue
                        if loads[0] is r.value:
                            r.value = a.value
                        else:
                            for par in ast.walk(r.value):
                                for fld, val in ast.iter_fields(par):
                                    if val is loads[0]:
                                        setattr(par, fld, a.value)
                                    elif isinstance(val, list):
                                        for k, item in enumerate(val):
                                            if item is loads[0]:
                                                val[k] = a.value
                        blk.remove(a)
                        again = True
                        break
                if again:
                    break
    for n in ast.walk(tree):
        if isinstance(n, ast.If) and isinstance(n.test, ast.UnaryOp) and isinstance(n.test.op, ast.Not) and n.orelse and \
                not (len(n.orelse) == 1 and isinstance(n.orelse[0], ast.If)):
            n.test = n.test.operand
            n.body, n.orelse = n.orelse, n.body

    # N3  concatenation of string literals / f-strings  ->  one f-string   ('a' + f'{x}' + 'b'  ->  f'a{x}b')
    def is_text(e):
        return isinstance(e, ast.JoinedStr) or (isinstance(e, ast.Constant) and isinstance(e.value, str))

    class Fold(ast.NodeTransformer):
        def visit_BinOp(self, node):
            self.generic_visit(node)
            if isinstance(node.op, ast.Add) and is_text(node.left) and is_text(node.right):
                vals = []
                for side in (node.left, node.right):
                    vals.extend(side.values if isinstance(side, ast.JoinedStr) else [side])
                merged = []
                for v in vals:
                    if isinstance(v, ast.Constant) and merged and isinstance(merged[-1], ast.Constant):
                        merged[-1] = ast.copy_location(ast.Constant(value=merged[-1].value + v.value), merged[-1])
                    else:
                        merged.append(v)
                if all(isinstance(v, ast.Constant) for v in merged):
                    return ast.copy_location(ast.Constant(value=''.join(v.value for v in merged)), node)
                return ast.copy_location(ast.JoinedStr(values=merged), node)
            return node
    Fold().visit(tree)

    # N15  `match S: case A: X  case B | C: Y  case _: Z`  (value / singleton / or / class-without-arguments / wildcard patterns,
    #       guards)  ->  `if S == A: X elif S == B or S == C: Y else: Z`
    def pattern_test(subj: ast.expr, pat) -> Optional[ast.expr]:
        import copy as _copy
        if isinstance(pat, ast.MatchValue):
            return ast.Compare(left=_copy.deepcopy(subj), ops=[ast.Eq()], comparators=[pat.value])
        if isinstance(pat, ast.MatchSingleton):
            return ast.Compare(left=_copy.deepcopy(subj), ops=[ast.Is()], comparators=[ast.Constant(value=pat.value)])
        if isinstance(pat, ast.MatchOr):
            parts = [pattern_test(subj, p_) for p_ in pat.patterns]
            if any(x is None for x in parts):
                return None
            return ast.BoolOp(op=ast.Or(), values=parts)
        if isinstance(pat, ast.MatchClass) and not pat.patterns and not pat.kwd_patterns:
            return ast.Call(func=ast.Name(id='isinstance', ctx=ast.Load()), args=[_copy.deepcopy(subj), pat.cls], keywords=[])
        if isinstance(pat, ast.MatchAs) and pat.pattern is None and pat.name is None:
            return ast.Constant(value=True)
        return None

    class MatchToIf(ast.NodeTransformer):
        def visit_Match(self, node):
            self.generic_visit(node)
            subj = node.subject
            pre = []
            if not all(isinstance(x, (ast.Name, ast.Attribute, ast.expr_context)) for x in ast.walk(subj)):
                # the subject is computed once: bind it to a fresh local first
                self.n_tmp = getattr(self, 'n_tmp', 0) + 1
                tmp = f'__match_subject_{self.n_tmp}'
                pre = [ast.copy_location(ast.Assign(targets=[ast.Name(id=tmp, ctx=ast.Store())], value=subj), node)]
                subj = ast.Name(id=tmp, ctx=ast.Load())
            tests = []
            for c in node.cases:
                if isinstance(c.pattern, ast.MatchAs) and c.pattern.pattern is None and c.pattern.name is not None and c is node.cases[-1]:
                    # `case other:` - the irrefutable capture: the subject under that name
                    bind = ast.copy_location(ast.Assign(targets=[ast.Name(id=c.pattern.name, ctx=ast.Store())],
                                                        value=ast.Name(id=getattr(subj, 'id', ''), ctx=ast.Load())
                                                        if isinstance(subj, ast.Name) else subj), node)
                    t = ast.Constant(value=True) if c.guard is None else c.guard
                    tests.append((t, [bind] + list(c.body)))
                    continue
                t = pattern_test(subj, c.pattern)
                if t is None:
                    return node
                if c.guard is not None:
                    t = c.guard if isinstance(t, ast.Constant) and t.value is True else ast.BoolOp(op=ast.And(), values=[t, c.guard])
                tests.append((t, c.body))
            out = None
            for t, body in reversed(tests):
                if isinstance(t, ast.Constant) and t.value is True:
                    out = list(body)            # the wildcard: everything after it is unreachable
                else:
                    out = [ast.If(test=t, body=list(body), orelse=out or [])]
            if not out:
                return node
            for st in out:
                for x in ast.walk(st):
                    if not hasattr(x, 'lineno') and isinstance(x, (ast.expr, ast.stmt)):
                        ast.copy_location(x, node)
            if pre:
                return pre + out
            return out if len(out) > 1 or not isinstance(out[0], ast.If) else out[0]
    if any(isinstance(x, ast.Match) for x in ast.walk(tree)):
        MatchToIf().visit(tree)
        ast.fix_missing_locations(tree)

    # N6  guard clauses of a loop body, in every tail position of the iteration:
    #       `if c: continue` + REST        ->  `if not c: REST`
    #       `if c: S; continue` + REST     ->  `if c: S` `else: REST`
    def n6_block(blk: List[ast.stmt]) -> bool:
        """`blk` is in tail position of a loop iteration (nothing of the iteration runs after it)."""
        did = False
        i = 0
        while i < len(blk):
            st = blk[i]
            if isinstance(st, ast.If) and not st.orelse and st.body and isinstance(st.body[-1], ast.Continue) and \
                    not any(isinstance(x, (ast.Continue, ast.Break)) for b_ in st.body[:-1] for x in ast.walk(b_)
                            if not isinstance(b_, (ast.For, ast.While))):
                rest = blk[i + 1:]
                del blk[i + 1:]
                if len(st.body) == 1:
                    if rest:
                        st.test = st.test.operand if isinstance(st.test, ast.UnaryOp) and isinstance(st.test.op, ast.Not) \
                            else ast.copy_location(ast.UnaryOp(op=ast.Not(), operand=st.test), st.test)
                        st.body = rest
                    else:
                        st.body = [ast.copy_location(ast.Pass(), st)]
                else:
                    st.body = st.body[:-1]
                    st.orelse = rest
                did = True
            i += 1
        if blk and isinstance(blk[-1], ast.If):
            did = n6_block(blk[-1].body) or did
            if blk[-1].orelse:
                did = n6_block(blk[-1].orelse) or did
        return did

    for n in ast.walk(tree):
        if isinstance(n, (ast.For, ast.AsyncFor)):
            for _k in range(6):
                if not n6_block(n.body):
                    break

    # N4  `CONST == x` / `CONST != x` / `None is x`  ->  `x == CONST` ...   (the constant-like operand on the right)
    def const_like(e) -> bool:
        if isinstance(e, ast.Constant):
            return True
        if isinstance(e, ast.Name):
            return e.id.isupper()
        if isinstance(e, ast.Attribute):
            owner = e.value.attr if isinstance(e.value, ast.Attribute) else e.value.id if isinstance(e.value, ast.Name) else ''
            return e.attr.isupper() and owner[:1].isupper()      # Class.MEMBER, module.Class.MEMBER
        if isinstance(e, ast.UnaryOp) and isinstance(e.op, ast.USub):
            return const_like(e.operand)
        return False

    for n in ast.walk(tree):
        if isinstance(n, ast.Compare) and len(n.ops) == 1 and isinstance(n.ops[0], (ast.Eq, ast.NotEq, ast.Is, ast.IsNot)) and \
                const_like(n.left) and not const_like(n.comparators[0]):
            n.left, n.comparators[0] = n.comparators[0], n.left


class Program:
    def __init__(self, repo_src: str):
        self.repo_src = repo_src
        self.root = os.path.join(repo_src, PKG)
        self.modules: Dict[str, Module] = {}
        self.classes: Dict[str, ClassInfo] = {}       # fq -> ClassInfo
        self.functions: Dict[str, FuncInfo] = {}      # fq -> FuncInfo (all incl. methods, nested)
        self._parents: Dict[int, ast.AST] = {}
        self.inlined: List[Tuple[str, str]] = []         # N7: (caller, inlined helper)
        self._load()
        self._index()

    # -- loading -------------------------------------------------------------------------
    def _load(self):
        if not os.path.isdir(self.root):
            raise AnalysisError(f'package root {self.root} not found')
        for dirpath, dirnames, filenames in os.walk(self.root):
            dirnames[:] = sorted(d for d in dirnames if d != '__pycache__')
            for fn in sorted(filenames):
                if not fn.endswith('.py'):
                    continue
                path = os.path.join(dirpath, fn)
                rel = os.path.relpath(path, self.repo_src)[:-3].replace(os.sep, '.')
                is_pkg = rel.endswith('.__init__')
                if is_pkg:
                    rel = rel[:-len('.__init__')]
                with open(path, encoding='utf-8') as fh:
                    src = fh.read()
                try:
                    tree = ast.parse(src, filename=path)
                except SyntaxError as exc:
                    raise AnalysisError(f'{path}: does not parse: {exc}') from exc
                normalise_tree(tree)
                self.modules[rel] = Module(rel, path, src, tree, is_pkg)

    def module_paths(self) -> Dict[str, str]:
        return {m.name: m.path for m in self.modules.values()}

    def _resolve_relative(self, mod: Module, level: int, name: Optional[str]) -> str:
        if level == 0:
            return name or ''
        parts = mod.name.split('.')
        if not mod.is_pkg:
            parts = parts[:-1]
        if level > 1:
            parts = parts[:len(parts) - (level - 1)]
        if name:
            parts = parts + name.split('.')
        return '.'.join(parts)

    def _index(self):
        for mod in self.modules.values():
            for node in ast.walk(mod.tree):
                for child in ast.iter_child_nodes(node):
                    self._parents[id(child)] = node
            for stmt in mod.tree.body:
                if isinstance(stmt, ast.ImportFrom):
                    target = self._resolve_relative(mod, stmt.level, stmt.module)
                    for alias in stmt.names:
                        local = alias.asname or alias.name
                        # "from . import x" / "from .. import cpp_gen": symbol may be a submodule
                        sub = f'{target}.{alias.name}' if target else alias.name
                        if sub in self.modules:
                            mod.imports[local] = (sub, None)
                        else:
                            mod.imports[local] = (target, alias.name)
                elif isinstance(stmt, ast.Import):
                    for alias in stmt.names:
                        mod.imports[alias.asname or alias.name.split('.')[0]] = (alias.name, None)
                elif isinstance(stmt, ast.ClassDef):
                    self._index_class(mod, stmt)
                elif isinstance(stmt, (ast.FunctionDef, ast.AsyncFunctionDef)):
                    self._index_function(mod, stmt, None, None)
                elif isinstance(stmt, ast.Assign):
                    for tgt in stmt.targets:
                        if isinstance(tgt, ast.Name):
                            mod.assigns[tgt.id] = stmt.value
                            mod.assign_nodes[tgt.id] = stmt
                elif isinstance(stmt, ast.AnnAssign) and isinstance(stmt.target, ast.Name) and stmt.value:
                    mod.assigns[stmt.target.id] = stmt.value
                    mod.assign_nodes[stmt.target.id] = stmt
        # resolve bases after all classes are known
        for cls in list(self.classes.values()):
            resolved = []
            for b in cls.node.bases:
                r = self.resolve_expr_symbol(cls.module, b)
                if isinstance(r, ClassInfo):
                    resolved.append(r.fq)
                else:
                    resolved.append(ast.unparse(b))
            cls.bases = resolved
        for cls in self.classes.values():
            anc = self.ancestors(cls)
            names = [a if isinstance(a, str) else a.fq for a in anc]
            cls.is_enum = any(isinstance(a, str) and a.split('.')[-1] in ('Enum', 'IntEnum', 'StrEnum', 'Flag', 'IntFlag') for a in anc)   # (a dataclass that is *named* Enum is none)
            cls.is_exception = any(n.split('.')[-1] in ('Exception', 'BaseException', 'TypeError', 'ValueError',
                                                        'RuntimeError', 'KeyError', 'LookupError')
                                   or n.endswith('Error') for n in names if n != cls.fq)
            if cls.is_enum:
                for stmt in cls.node.body:
                    if isinstance(stmt, ast.Assign) and len(stmt.targets) == 1 and isinstance(stmt.targets[0], ast.Name):
                        cls.enum_members[stmt.targets[0].id] = stmt.value
        self._devirtualise_singledispatch()
        self._inline_decorator_factories()
        self._eliminate_memo_tables()
        self._inline_expression_helpers()
        self._expand_keyword_helpers()
        self._inline_void_procedures()
        self._unroll_literal_iterations()
        self._inline_expression_helpers(max_rounds=1)      # helpers that became single expressions by unrolling
        self._normalise_ctor_keywords()
        self._mark_noreturn_calls()
        # the normal forms moved nodes around: recompute the parent links
        self._parents.clear()
        for mod in self.modules.values():
            for node in ast.walk(mod.tree):
                for child in ast.iter_child_nodes(node):
                    self._parents[id(child)] = node

    # -- N25 ---------------------------------------------------------------------------------------------------------
    def _devirtualise_singledispatch(self):
        """N25  functools.singledispatch written out:

                   @singledispatch                                def f(x, a):
                   def f(x, a): DEFAULT                               if isinstance(x, T1): return g1(x, a)
                   @f.register(T1)                         ->         if x is None: return g2(x, a)          (for type(None))
                   def g1(x, a): ...                                  DEFAULT
                   @f.register(type(None))                        def g1(x, a): ...      def g2(x, a): ...
                   def g2(x, a): ...

           (registered classes tested most-derived first; dispatch follows the class of the first argument through its MRO, which is
           what isinstance tests when no class derives from two registered ones - builtins and package classes with single
           inheritance);  `f.dispatch(v.__class__)(v, a)` / `f.dispatch(type(v))(v, a)` -> `f(v, a)`.  Registrations by annotation
           only, `register` called as a function, or a dispatch on anything but the first argument's own class are left alone."""
        import copy
        self.singledispatch_written_out: List[str] = []
        for mod in self.modules.values():
            generic: Dict[str, FuncInfo] = {}
            for f in mod.functions.values():
                if isinstance(f.node, ast.FunctionDef) and len(f.node.decorator_list) == 1:
                    d = f.node.decorator_list[0]
                    sym = self.resolve_expr_symbol(mod, d) if isinstance(d, (ast.Name, ast.Attribute)) else None
                    if isinstance(sym, tuple) and sym[0] == 'ext' and sym[1] == 'functools.singledispatch' and f.node.args.args and \
                            not f.node.args.posonlyargs:
                        generic[f.name] = f
            if not generic:
                continue
            regs: Dict[str, List[Tuple[ast.expr, FuncInfo]]] = {g: [] for g in generic}
            ok_mod = True
            for f in mod.functions.values():
                if not isinstance(f.node, ast.FunctionDef):
                    continue
                for d in f.node.decorator_list:
                    if isinstance(d, ast.Call) and isinstance(d.func, ast.Attribute) and d.func.attr == 'register' and \
                            isinstance(d.func.value, ast.Name) and d.func.value.id in generic:
                        if len(d.args) != 1 or d.keywords or len(f.node.decorator_list) != 1:
                            ok_mod = False
                        else:
                            regs[d.func.value.id].append((d.args[0], f))
                    elif isinstance(d, ast.Attribute) and d.attr == 'register' and isinstance(d.value, ast.Name) and d.value.id in generic:
                        ok_mod = False          # registration by annotation
            # `f.register(...)` used in any other way, `f.registry`, ... : leave the module alone
            for x in ast.walk(mod.tree):
                if isinstance(x, ast.Attribute) and isinstance(x.value, ast.Name) and x.value.id in generic and x.attr not in ('register', 'dispatch'):
                    ok_mod = False
                if isinstance(x, ast.Attribute) and isinstance(x.value, ast.Name) and x.value.id in generic and x.attr == 'register':
                    par_ok = any(isinstance(fn_.node, ast.FunctionDef) and any(d_ is par_ or (isinstance(d_, ast.Call) and d_.func is x)
                                                                                  for d_ in fn_.node.decorator_list for par_ in [x])
                                 for fn_ in mod.functions.values())
                    if not par_ok:
                        ok_mod = False
            if not ok_mod:
                continue

            def rank(t: ast.expr) -> int:
                """more derived classes first"""
                sym_ = self.resolve_expr_symbol(mod, t) if isinstance(t, (ast.Name, ast.Attribute)) else None
                if isinstance(sym_, ClassInfo):
                    return -len(self.ancestors(sym_))
                if isinstance(t, ast.Name) and t.id == 'bool':
                    return -2
                if isinstance(t, ast.Name) and t.id == 'object':
                    return 0
                return -1
            for gname, g in generic.items():
                first = g.node.args.args[0].arg
                others = [a_.arg for a_ in g.node.args.args[1:]]
                kwonly = [a_.arg for a_ in g.node.args.kwonlyargs]
                if g.node.args.vararg or g.node.args.kwarg:
                    continue
                tests = []
                good = True
                for t, impl in sorted(regs[gname], key=lambda p_: rank(p_[0])):
                    ia = impl.node.args
                    if len(ia.args) != len(g.node.args.args) or ia.vararg or ia.kwarg or ia.posonlyargs:
                        good = False
                        break
                    if isinstance(t, ast.Call) and isinstance(t.func, ast.Name) and t.func.id == 'type' and len(t.args) == 1 and \
                            isinstance(t.args[0], ast.Constant) and t.args[0].value is None:
                        test = ast.Compare(left=ast.Name(id=first, ctx=ast.Load()), ops=[ast.Is()], comparators=[ast.Constant(value=None)])
                    elif isinstance(t, (ast.Name, ast.Attribute)):
                        test = ast.Call(func=ast.Name(id='isinstance', ctx=ast.Load()), args=[ast.Name(id=first, ctx=ast.Load()), copy.deepcopy(t)], keywords=[])
                    else:
                        good = False
                        break
                    call = ast.Call(func=ast.Name(id=impl.name, ctx=ast.Load()),
                                    args=[ast.Name(id=n_, ctx=ast.Load()) for n_ in [first] + others],
                                    keywords=[ast.keyword(arg=k_, value=ast.Name(id=k_, ctx=ast.Load())) for k_ in kwonly])
                    tests.append(ast.If(test=test, body=[ast.Return(value=call)], orelse=[]))
                if not good:
                    continue
                for st in tests:
                    for x in ast.walk(st):
                        if isinstance(x, (ast.expr, ast.stmt)):
                            x.lineno, x.col_offset = g.node.lineno, g.node.col_offset
                            x.end_lineno, x.end_col_offset = g.node.lineno, g.node.col_offset
                k0 = 1 if g.node.body and isinstance(g.node.body[0], ast.Expr) and isinstance(g.node.body[0].value, ast.Constant) else 0
                g.node.body = g.node.body[:k0] + tests + g.node.body[k0:]
                g.node.decorator_list = []
                for _t, impl in regs[gname]:
                    impl.node.decorator_list = []
                self.singledispatch_written_out.append(g.fq)
            # f.dispatch(v.__class__)(v, ...)  ->  f(v, ...)      (in every module that can name f)
            done = set(self.singledispatch_written_out)

            class Rew(ast.NodeTransformer):
                def visit_Call(self_, n_):
                    self_.generic_visit(n_)
                    f_ = n_.func
                    if isinstance(f_, ast.Call) and isinstance(f_.func, ast.Attribute) and f_.func.attr == 'dispatch' and len(f_.args) == 1 \
                            and not f_.keywords and n_.args and isinstance(f_.func.value, (ast.Name, ast.Attribute)):
                        tgt = self.resolve_expr_symbol(self_.mod, f_.func.value)
                        if isinstance(tgt, FuncInfo) and tgt.fq in done:
                            k_ = f_.args[0]
                            a0 = n_.args[0]
                            subj = k_.value if isinstance(k_, ast.Attribute) and k_.attr == '__class__' else \
                                k_.args[0] if isinstance(k_, ast.Call) and isinstance(k_.func, ast.Name) and k_.func.id == 'type' and len(k_.args) == 1 else None
                            if subj is not None and ast.dump(subj) == ast.dump(a0):
                                return ast.copy_location(ast.Call(func=f_.func.value, args=n_.args, keywords=n_.keywords), n_)
                    return n_
            for m2 in self.modules.values():
                r_ = Rew()
                r_.mod = m2
                r_.visit(m2.tree)

    # -- N24 ---------------------------------------------------------------------------------------------------------
    def _inline_decorator_factories(self):
        """N24  a function decorated with a wrapper factory of its own module

                   def factory(c, k=None):                         @factory('tag')
                       def decorate(f):                            def parse_x(elt, ns): BODY
                           name = f.__name__ if k is None else k
                           @functools.wraps(f)
                           def wrapper(element, *args, **kwargs):
                               PRELUDE(element, c, name)
                               return f(FIRST, *args, **kwargs)
                           return wrapper
                       return decorate

           is the function the decorator makes of it:   def parse_x(element, ns): name = 'parse_x'; PRELUDE; [elt = FIRST]; BODY
           (factory arguments are constants of the decoration site, `f.__name__` is the name of the decorated function, conditional
           expressions over those constants are folded; the decorator's locals are renamed apart where they clash).  Only this
           exact shape - a wrapper that runs a prelude and then calls the decorated function once, as its last statement, handing
           on every further argument unchanged - is rewritten; any other decorator is left alone (and the rules see a decorated
           function as before).  The rewritten functions are listed in `decorators_inlined`."""
        import copy
        self.decorators_inlined: List[Tuple[str, str]] = []

        def is_const(e) -> bool:
            return isinstance(e, ast.Constant) or (isinstance(e, (ast.Tuple, ast.List)) and all(is_const(x) for x in e.elts)) or (
                isinstance(e, ast.UnaryOp) and isinstance(e.operand, ast.Constant))

        def shape(factory: FuncInfo):
            body = [st for st in factory.node.body if not (isinstance(st, ast.Expr) and isinstance(st.value, ast.Constant))]
            # argument checks of the factory itself (evaluated once, at import) may precede the inner function
            while body and isinstance(body[0], ast.If) and all(isinstance(x, ast.Raise) for x in body[0].body) and not body[0].orelse:
                body = body[1:]
            if len(body) != 2 or not isinstance(body[0], ast.FunctionDef) or not isinstance(body[1], ast.Return) or \
                    not (isinstance(body[1].value, ast.Name) and body[1].value.id == body[0].name):
                return None
            deco = body[0]
            if len(deco.args.args) != 1 or deco.args.vararg or deco.args.kwarg or deco.args.kwonlyargs:
                return None
            fparam = deco.args.args[0].arg
            dbody = [st for st in deco.body if not (isinstance(st, ast.Expr) and isinstance(st.value, ast.Constant))]
            pre_assigns, wrapper = [], None
            for st in dbody:
                if isinstance(st, ast.FunctionDef) and wrapper is None:
                    wrapper = st
                elif wrapper is None and isinstance(st, ast.Assign) and len(st.targets) == 1 and isinstance(st.targets[0], ast.Name):
                    pre_assigns.append(st)
                elif wrapper is not None and isinstance(st, ast.Assign) and len(st.targets) == 1 and isinstance(st.targets[0], ast.Attribute) \
                        and isinstance(st.targets[0].value, ast.Name) and st.targets[0].value.id == wrapper.name:
                    continue            # an informational attribute on the wrapper
                elif wrapper is not None and isinstance(st, ast.Return) and isinstance(st.value, ast.Name) and st.value.id == wrapper.name:
                    continue
                else:
                    return None
            if wrapper is None:
                return None
            wa = wrapper.args
            if len(wa.args) != 1 or wa.vararg is None or wa.kwarg is None or wa.kwonlyargs or wa.defaults or wa.posonlyargs:
                return None
            wbody = [st for st in wrapper.body if not (isinstance(st, ast.Expr) and isinstance(st.value, ast.Constant))]
            if not wbody or not isinstance(wbody[-1], ast.Return) or not isinstance(wbody[-1].value, ast.Call):
                return None
            call = wbody[-1].value
            if not (isinstance(call.func, ast.Name) and call.func.id == fparam and len(call.args) == 2 and
                    isinstance(call.args[1], ast.Starred) and isinstance(call.args[1].value, ast.Name) and call.args[1].value.id == wa.vararg.arg
                    and len(call.keywords) == 1 and call.keywords[0].arg is None and isinstance(call.keywords[0].value, ast.Name)
                    and call.keywords[0].value.id == wa.kwarg.arg):
                return None
            prelude = wbody[:-1]
            if any(isinstance(x, (ast.Return, ast.Yield, ast.YieldFrom, ast.FunctionDef, ast.Lambda, ast.Global, ast.Nonlocal))
                   for st in prelude for x in ast.walk(st)):
                return None
            if any(isinstance(x, ast.Name) and x.id in (fparam, wa.vararg.arg, wa.kwarg.arg) and not (
                    isinstance(self._parents.get(id(x)), ast.Attribute) and self._parents[id(x)].attr == '__name__')
                    for st in prelude + pre_assigns for x in ast.walk(st)):
                return None
            return deco, fparam, pre_assigns, wrapper, prelude, call.args[0]

        for fn in list(self.functions.values()):
            node = fn.node
            if not isinstance(node, ast.FunctionDef) or len(node.decorator_list) != 1 or fn.cls is not None or fn.parent is not None:
                continue
            d = node.decorator_list[0]
            if not (isinstance(d, ast.Call) and isinstance(d.func, ast.Name)):
                continue
            factory = self.resolve_name(fn.module, d.func.id)
            if not isinstance(factory, FuncInfo) or factory.module is not fn.module or factory.cls is not None or factory is fn:
                continue
            sh = shape(factory)
            if sh is None or any(isinstance(a_, ast.Starred) for a_ in d.args) or any(k_.arg is None for k_ in d.keywords):
                continue
            deco, fparam, pre_assigns, wrapper, prelude, first = sh
            fa = factory.node.args
            if fa.vararg or fa.kwarg or fa.posonlyargs:
                continue
            fnames = [a_.arg for a_ in fa.args + fa.kwonlyargs]
            binding: Dict[str, ast.expr] = dict(zip([a_.arg for a_ in fa.args], d.args))
            for k_ in d.keywords:
                binding[k_.arg] = k_.value
            defaults = dict(zip([a_.arg for a_ in fa.args][len(fa.args) - len(fa.defaults):], fa.defaults))
            defaults.update({a_.arg: dv for a_, dv in zip(fa.kwonlyargs, fa.kw_defaults) if dv is not None})
            for nm in fnames:
                if nm not in binding and nm in defaults:
                    binding[nm] = defaults[nm]
            if set(binding) != set(fnames) or not all(is_const(v) for v in binding.values()):
                continue
            na = node.args
            if not na.args or na.posonlyargs:
                continue
            own_first = na.args[0].arg
            own_names = {x.id for x in ast.walk(node) if isinstance(x, ast.Name)} | {a_.arg for a_ in na.args + na.kwonlyargs}
            wfirst = wrapper.args.args[0].arg
            deco_locals = {st.targets[0].id for st in pre_assigns} | {x.id for st in prelude for x in ast.walk(st)
                                                                      if isinstance(x, ast.Name) and isinstance(x.ctx, ast.Store)} | {wfirst}
            keep = first.id if isinstance(first, ast.Name) and first.id == own_first else None
            rename = {nm: f'{nm}__d' for nm in deco_locals if nm in own_names and nm != keep}
            if any(v in own_names for v in rename.values()):
                continue

            class Sub(ast.NodeTransformer):
                def visit_Attribute(self_, n_):
                    if n_.attr == '__name__' and isinstance(n_.value, ast.Name) and n_.value.id == fparam:
                        return ast.copy_location(ast.Constant(value=fn.name), n_)
                    self_.generic_visit(n_)
                    return n_

                def visit_Name(self_, n_):
                    if n_.id in rename:
                        return ast.copy_location(ast.Name(id=rename[n_.id], ctx=n_.ctx), n_)
                    if n_.id in binding and isinstance(n_.ctx, ast.Load) and n_.id not in deco_locals:
                        return copy.deepcopy(binding[n_.id])
                    return n_

                def visit_IfExp(self_, n_):
                    self_.generic_visit(n_)
                    t = n_.test
                    if isinstance(t, ast.Compare) and len(t.ops) == 1 and isinstance(t.left, ast.Constant) and isinstance(t.comparators[0], ast.Constant):
                        a_, b_ = t.left.value, t.comparators[0].value
                        op = t.ops[0]
                        r = (a_ is b_ or a_ == b_) if isinstance(op, (ast.Is, ast.Eq)) else not (a_ is b_ or a_ == b_) if isinstance(op, (ast.IsNot, ast.NotEq)) else None
                        if r is not None:
                            return n_.body if r else n_.orelse
                    return n_
            new_stmts = [Sub().visit(copy.deepcopy(st)) for st in pre_assigns + prelude]
            first_new = Sub().visit(copy.deepcopy(first))
            if not (isinstance(first_new, ast.Name) and first_new.id == own_first):
                asg = ast.Assign(targets=[ast.Name(id=own_first, ctx=ast.Store())], value=first_new)
                new_stmts.append(asg)
            for st in new_stmts:
                for x in ast.walk(st):
                    if isinstance(x, (ast.expr, ast.stmt)):
                        x.lineno, x.col_offset = node.lineno, node.col_offset
                        x.end_lineno, x.end_col_offset = node.lineno, node.col_offset
            k0 = 1 if node.body and isinstance(node.body[0], ast.Expr) and isinstance(node.body[0].value, ast.Constant) else 0
            node.body = node.body[:k0] + new_stmts + node.body[k0:]
            new_first = copy.deepcopy(wrapper.args.args[0])
            new_first.arg = rename.get(wfirst, wfirst)
            na.args[0] = new_first
            node.decorator_list = []
            self.decorators_inlined.append((fn.fq, factory.fq))

    # -- N23 ---------------------------------------------------------------------------------------------------------
    def _mark_noreturn_calls(self):
        """N23  a call STATEMENT of a helper that never returns - every path through its body ends in `raise` (or in a call of
        such a helper), no `return`, no `yield` - ends the path like the `raise` it stands for: the statement node is marked
        `_noreturn`, which flow.always_exits / always_raises honour (`if bad: self._fail(msg)` guards what follows exactly like
        `if bad: raise Error(msg)`).  Resolved callees only: a function of the module or an imported one by name, `self.m(...)`
        / `cls.m(...)` through the class hierarchy; a method that a subclass overrides with one that returns does not count."""
        def resolve(caller: FuncInfo, call: ast.Call) -> Optional[FuncInfo]:
            f = call.func
            if isinstance(f, ast.Name):
                sym = self.resolve_name(caller.module, f.id)
                return sym if isinstance(sym, FuncInfo) else None
            if isinstance(f, ast.Attribute) and isinstance(f.value, ast.Name) and f.value.id in ('self', 'cls'):
                owner = caller
                while owner is not None and owner.cls is None:
                    owner = owner.parent
                if owner is None:
                    return None
                return self.lookup_method(owner.cls, f.attr)
            if isinstance(f, ast.Attribute):
                sym = self.resolve_expr_symbol(caller.module, f)
                return sym if isinstance(sym, FuncInfo) else None
            return None

        noret: Set[str] = set()

        def never_returns(stmts: List[ast.stmt], fn: FuncInfo) -> bool:
            for st in stmts:
                if isinstance(st, ast.Raise):
                    return True
                if isinstance(st, (ast.Return, ast.Continue, ast.Break)):
                    return False
                if isinstance(st, ast.Expr) and isinstance(st.value, ast.Call):
                    c = resolve(fn, st.value)
                    if c is not None and c.fq in noret:
                        return True
                if isinstance(st, ast.If) and st.orelse and never_returns(st.body, fn) and never_returns(st.orelse, fn):
                    return True
            return False
        for _ in range(3):
            grown = False
            for fn in self.functions.values():
                if fn.fq in noret or not isinstance(fn.node, (ast.FunctionDef, ast.AsyncFunctionDef)):
                    continue
                if fn.is_property or any(isinstance(x, (ast.Return, ast.Yield, ast.YieldFrom, ast.Try, ast.While)) for x in iter_own_nodes(fn.node)):
                    continue
                if never_returns(fn.node.body, fn):
                    # overriding methods must not return either
                    if fn.cls is not None and any(
                            fn.name in c.methods and c.methods[fn.name] is not fn and c.methods[fn.name].fq not in noret
                            for c in self.classes.values() if c is not fn.cls and any(
                                isinstance(a_, ClassInfo) and a_ is fn.cls for a_ in self.ancestors(c))):
                        continue
                    noret.add(fn.fq)
                    grown = True
            if not grown:
                break
        self.noreturn_functions = noret
        if not noret:
            return
        for fn in self.functions.values():
            for x in iter_own_nodes(fn.node):
                if isinstance(x, ast.Expr) and isinstance(x.value, ast.Call):
                    c = resolve(fn, x.value)
                    if c is not None and c.fq in noret:
                        x._noreturn = True

    # -- N22 ---------------------------------------------------------------------------------------------------------
    def _eliminate_memo_tables(self):
        """N22  a function that remembers what it computes in a table of its own object (or of its module):

                   [k = K]                                   [k = K]
                   if k not in self.T:                       [locals]
                       [locals]; self.T[k] = V       ->      return V
                   return self.T[k]

           provided every parameter V depends on (through the locals) is also one K depends on: then a hit returns what
           the miss would compute again.  (V is taken to be a function of its inputs - what the properties say about the
           value does not depend on how often it is computed.)  A table whose key leaves a parameter out is NOT rewritten;
           the rules report it (C07.memo / C05.memo).  The eliminated tables are listed in `memo_eliminated`."""
        self.memo_eliminated: List[Tuple[str, int, str]] = []
        for fn in list(self.functions.values()):
            node = fn.node
            if not isinstance(node, (ast.FunctionDef, ast.AsyncFunctionDef)):
                continue
            body = list(node.body)
            k0 = 1 if body and isinstance(body[0], ast.Expr) and isinstance(body[0].value, ast.Constant) else 0
            if len(body) - k0 < 2 or not isinstance(body[-1], ast.Return) or not isinstance(body[-2], ast.If):
                continue
            ret, guard, pre = body[-1], body[-2], body[k0:-2]
            if guard.orelse or not all(isinstance(x, (ast.Assign, ast.AnnAssign)) for x in pre + guard.body):
                continue
            t = guard.test
            if not (isinstance(t, ast.Compare) and len(t.ops) == 1 and isinstance(t.ops[0], ast.NotIn)):
                continue
            K, D = t.left, t.comparators[0]
            store = guard.body[-1]
            if not (isinstance(store, ast.Assign) and len(store.targets) == 1 and isinstance(store.targets[0], ast.Subscript)
                    and ast.dump(store.targets[0].value) == ast.dump(D) and ast.dump(store.targets[0].slice) == ast.dump(K)):
                continue
            if not (isinstance(ret.value, ast.Subscript) and ast.dump(ret.value.value) == ast.dump(D)
                    and ast.dump(ret.value.slice) == ast.dump(K)):
                continue
            root = D
            while isinstance(root, ast.Attribute):
                root = root.value
            a = node.args
            params = [x.arg for x in a.posonlyargs + a.args + a.kwonlyargs]
            if not isinstance(root, ast.Name) or not isinstance(D, ast.Attribute) or root.id != (params[0] if params else None) \
                    or fn.cls is None or root.id not in ('self', 'cls'):
                continue            # only tables of the object itself (handed-in tables live as long as the caller says)
            local_defs: Dict[str, List[ast.expr]] = {}
            ok = True
            for st in pre + guard.body[:-1]:
                tg = st.targets[0] if isinstance(st, ast.Assign) and len(st.targets) == 1 else getattr(st, 'target', None)
                if not isinstance(tg, ast.Name) or getattr(st, 'value', None) is None:
                    ok = False
                    break
                local_defs.setdefault(tg.id, []).append(st.value)
            if not ok:
                continue

            def deps(e, seen=None) -> set:
                seen = set() if seen is None else seen
                res = set()
                for x in ast.walk(e):
                    if isinstance(x, ast.Name) and isinstance(x.ctx, ast.Load):
                        if x.id in local_defs and x.id not in seen:
                            seen.add(x.id)
                            for d in local_defs[x.id]:
                                res |= deps(d, seen)
                        if x.id in params[1:]:
                            res.add(x.id)
                return res
            if not deps(store.value) <= deps(K):
                continue
            # the table is touched nowhere else in the function (and the function touches no other state)
            if any(isinstance(x, (ast.Attribute, ast.Subscript)) and isinstance(x.ctx, (ast.Store, ast.Del))
                   for st in pre + guard.body[:-1] for x in ast.walk(st)):
                continue
            new_ret = ast.Return(value=store.value)
            ast.copy_location(new_ret, store)
            rest = pre + guard.body[:-1] + [new_ret]
            # what only served as the key is not needed any more
            changed = True
            while changed:
                changed = False
                for st in list(rest[:-1]):
                    tg = st.targets[0] if isinstance(st, ast.Assign) else st.target
                    used = any(isinstance(x, ast.Name) and x.id == tg.id and isinstance(x.ctx, ast.Load) for o in rest if o is not st for x in ast.walk(o))
                    simple = all(isinstance(c.func, ast.Name) and c.func.id in ('str', 'repr', 'tuple', 'hash', 'id', 'frozenset')
                                 for c in ast.walk(st.value) if isinstance(c, ast.Call))
                    if not used and simple:
                        rest.remove(st)
                        changed = True
            node.body = body[:k0] + rest
            self.memo_eliminated.append((fn.fq, store.lineno, ast.unparse(D)))

    # -- N7 ----------------------------------------------------------------------------------------------------------
    def _inline_expression_helpers(self, max_rounds: int = 3):
        """N7  a call of a helper of the SAME module (a module-level function, or `self.<method>` of the same class) whose
        body is a single `return <expression>` is replaced by that expression with the arguments substituted:
            def is_exposed(port): return not (port.direction != PROVIDES and port.injected.value)
            if not is_exposed(p): ...        ->      if not (not (p.direction != PROVIDES and p.injected.value)): ...
        "Extract helper" is the most common refactoring; with this normal form the shape rules see the same code before and
        after it.  The helper itself stays in the model (it is analysed as a function of its own as well).  Conditions:
        callee resolved statically, no *args / **kwargs / yield / lambda, no recursion, every argument either a side-effect
        free expression or bound to a parameter that the body uses at most once; bound variables of comprehensions in the
        inlined body are renamed apart."""
        import copy
        import itertools
        counter = itertools.count(1)

        def body_expr(f: FuncInfo) -> Optional[ast.expr]:
            if f.is_property or f.is_setter or f.node.decorator_list and not f.is_static:
                return None
            if f.parent is not None and f.nested:
                return None
            a = f.node.args
            if a.kwarg:
                return None
            body = [st for st in f.node.body
                    if not (isinstance(st, ast.Expr) and isinstance(st.value, ast.Constant) and isinstance(st.value.value, str))]
            if len(body) != 1 or not isinstance(body[0], ast.Return) or body[0].value is None:
                return None
            if a.vararg:
                # `*rest` only handed on as `g(..., *rest)`: the surplus arguments of the call are spliced in
                parents = {id(c_): p_ for p_ in ast.walk(body[0].value) for c_ in ast.iter_child_nodes(p_)}
                for x in ast.walk(body[0].value):
                    if isinstance(x, ast.Name) and x.id == a.vararg.arg:
                        st_ = parents.get(id(x))
                        if not (isinstance(st_, ast.Starred) and isinstance(parents.get(id(st_)), ast.Call)
                                and st_ in parents[id(st_)].args):
                            return None
            if any(isinstance(x, (ast.Yield, ast.YieldFrom, ast.Lambda, ast.NamedExpr, ast.Await)) for x in ast.walk(body[0].value)):
                return None
            return body[0].value

        def pure(e: ast.expr) -> bool:
            return all(isinstance(x, (ast.Name, ast.Attribute, ast.Constant, ast.Load, ast.Tuple, ast.List, ast.UnaryOp, ast.Not,
                                      ast.USub, ast.expr_context)) for x in ast.walk(e))

        def overridden(f: FuncInfo) -> bool:
            if f.cls is None:
                return False
            for c in self.classes.values():
                if c is not f.cls and f.name in c.methods and (f.cls in [a for a in self.ancestors(c) if isinstance(a, ClassInfo)]):
                    return True
            return False

        def resolve(caller: FuncInfo, call: ast.Call) -> Optional[Tuple[FuncInfo, Optional[ast.expr]]]:
            fnode = call.func
            if isinstance(fnode, ast.Name) and fnode.id in caller.nested:
                # a local helper function of the caller: its free names are the caller's own locals
                nf = caller.nested[fnode.id]
                free = {x.id for x in ast.walk(nf.node) if isinstance(x, ast.Name) and isinstance(x.ctx, ast.Load)}
                stores = {}
                for x in ast.walk(caller.node):
                    if isinstance(x, ast.Name) and isinstance(x.ctx, ast.Store):
                        stores[x.id] = stores.get(x.id, 0) + 1
                if all(stores.get(nm, 0) <= 1 for nm in free):
                    return nf, None
                return None
            if isinstance(fnode, ast.Name):
                # not shadowed by a local / parameter of the caller
                for x in ast.walk(caller.node):
                    if isinstance(x, ast.Name) and x.id == fnode.id and isinstance(x.ctx, ast.Store):
                        return None
                if fnode.id in [a.arg for a in caller.params()]:
                    return None
                sym = self.resolve_name(caller.module, fnode.id)
                if isinstance(sym, FuncInfo) and sym.module is caller.module and sym.cls is None:
                    return sym, None
            elif isinstance(fnode, ast.Attribute) and isinstance(fnode.value, ast.Name) and fnode.value.id == 'self' and \
                    caller.cls is not None and caller.parent is None:
                m = self.lookup_method(caller.cls, fnode.attr)
                if m is not None and m.module is caller.module and not m.is_static and not overridden(m):
                    return m, fnode.value
            elif isinstance(fnode, ast.Attribute) and isinstance(fnode.value, ast.Name) and caller.parent is None:
                # a method of a parameter whose annotation names a class of the package (`parent_ns.child(x)`): the names its
                # body reads must denote the same things where the call is written
                arg = next((a_ for a_ in caller.params() if a_.arg == fnode.value.id), None)
                if arg is None or arg.annotation is None or not isinstance(arg.annotation, (ast.Name, ast.Attribute)):
                    return None
                if any(isinstance(x, ast.Name) and x.id == arg.arg and isinstance(x.ctx, ast.Store) for x in ast.walk(caller.node)):
                    return None
                c_ = self.resolve_expr_symbol(caller.module, arg.annotation)
                if not isinstance(c_, ClassInfo):
                    return None
                m = self.lookup_method(c_, fnode.attr)
                if m is None or m.is_static or m.is_property or getattr(m, 'is_classmethod', False) or overridden(m):
                    return None
                if any(sub is not c_ and self.is_subclass(sub.fq, c_.fq) and fnode.attr in sub.methods for sub in self.classes.values()):
                    return None
                be = body_expr(m)
                if be is None:
                    return None
                params_ = {a_.arg for a_ in m.params()}
                bound_ = {t.id for x in ast.walk(be) if isinstance(x, ast.comprehension) for t in ast.walk(x.target) if isinstance(t, ast.Name)}
                for x in ast.walk(be):
                    if isinstance(x, ast.Name) and x.id not in params_ and x.id not in bound_:
                        s1, s2 = self.resolve_name(m.module, x.id), self.resolve_name(caller.module, x.id)
                        if s1 is None and s2 is None:
                            continue        # a builtin in both
                        if s1 is not s2:
                            return None
                return m, fnode.value
            return None

        for _round in range(max_rounds):
            changed = False
            for caller in list(self.functions.values()):
                for call in [n for n in ast.walk(caller.node) if isinstance(n, ast.Call)]:
                    r = resolve(caller, call)
                    if r is None:
                        continue
                    callee, recv = r
                    if callee is caller:
                        continue
                    expr = body_expr(callee)
                    if expr is None or any(isinstance(a, ast.Starred) for a in call.args) or any(k.arg is None for k in call.keywords):
                        continue
                    if any(isinstance(x, ast.Call) and self._same_callee(callee, x) for x in ast.walk(expr)):
                        continue        # recursive helper
                    a = callee.node.args
                    params = [p_.arg for p_ in list(a.posonlyargs) + list(a.args)]
                    binding: Dict[str, ast.expr] = {}
                    if recv is not None and params[:1] == ['self']:
                        binding['self'] = recv
                        params = params[1:]
                    surplus: List[ast.expr] = []
                    if len(call.args) > len(params):
                        if not a.vararg or not all(pure(v) for v in call.args[len(params):]):
                            continue
                        surplus = list(call.args[len(params):])
                    for p_, v in zip(params, call.args):
                        binding[p_] = v
                    ok = True
                    for k in call.keywords:
                        if k.arg in binding or k.arg not in params + [x.arg for x in a.kwonlyargs]:
                            ok = False
                        binding[k.arg] = k.value
                    pos_all = list(a.posonlyargs) + list(a.args)
                    defaults = dict(zip([x.arg for x in pos_all][len(pos_all) - len(a.defaults):], a.defaults))
                    defaults.update({x.arg: d for x, d in zip(a.kwonlyargs, a.kw_defaults) if d is not None})
                    for p_ in params + [x.arg for x in a.kwonlyargs]:
                        if p_ not in binding:
                            if p_ in defaults and pure(defaults[p_]):
                                binding[p_] = defaults[p_]
                            else:
                                ok = False
                    if not ok:
                        continue
                    uses = {}
                    for x in ast.walk(expr):
                        if isinstance(x, ast.Name):
                            uses[x.id] = uses.get(x.id, 0) + 1
                    if any(not pure(v) and uses.get(p_, 0) > 1 for p_, v in binding.items()):
                        continue
                    # names the body reads from its module must mean the same at the call site (same module: they do),
                    # comprehension variables are renamed apart
                    new = copy.deepcopy(expr)
                    bound = {}
                    for x in ast.walk(new):
                        if isinstance(x, ast.comprehension):
                            for t in ast.walk(x.target):
                                if isinstance(t, ast.Name):
                                    bound.setdefault(t.id, f'{t.id}__i{next(counter)}')

                    vararg = a.vararg.arg if a.vararg else None

                    class Sub(ast.NodeTransformer):
                        def visit_Name(self, node):
                            if node.id in bound:
                                return ast.copy_location(ast.Name(id=bound[node.id], ctx=node.ctx), node)
                            if node.id in binding and isinstance(node.ctx, ast.Load):
                                return copy.deepcopy(binding[node.id])
                            return node

                        def visit_Call(self, node):
                            if vararg is not None:
                                args2 = []
                                for x_ in node.args:
                                    if isinstance(x_, ast.Starred) and isinstance(x_.value, ast.Name) and x_.value.id == vararg:
                                        args2.extend(copy.deepcopy(v_) for v_ in surplus)
                                    else:
                                        args2.append(x_)
                                node.args = args2
                            return self.generic_visit(node)
                    new = Sub().visit(new)
                    for x in ast.walk(new):
                        if hasattr(x, 'lineno') or isinstance(x, (ast.expr, ast.stmt)):
                            x.lineno, x.col_offset = getattr(call, 'lineno', 0), getattr(call, 'col_offset', 0)
                            x.end_lineno, x.end_col_offset = getattr(call, 'end_lineno', 0), getattr(call, 'end_col_offset', 0)
                    par = self._parents.get(id(call))
                    if par is None:
                        continue
                    replaced = False
                    for fld, val in ast.iter_fields(par):
                        if val is call:
                            setattr(par, fld, new)
                            replaced = True
                        elif isinstance(val, list):
                            for i, item in enumerate(val):
                                if item is call:
                                    val[i] = new
                                    replaced = True
                    if replaced:
                        changed = True
                        self._parents[id(new)] = par
                        for x in ast.walk(new):
                            for ch in ast.iter_child_nodes(x):
                                self._parents[id(ch)] = x
                        self.inlined.append((caller.fq, callee.fq))
            if not changed:
                break
        # a local helper function every call of which was expanded is dead code: the definition goes
        inlined_callees = {c_ for _k, c_ in self.inlined}
        for caller in list(self.functions.values()):
            for nm, nf in list(caller.nested.items()):
                if nf.fq not in inlined_callees:
                    continue
                if any(isinstance(x, ast.Name) and x.id == nm for x in ast.walk(caller.node)):
                    continue
                for holder in ast.walk(caller.node):
                    for fld in ('body', 'orelse', 'finalbody'):
                        blk = getattr(holder, fld, None)
                        if isinstance(blk, list) and nf.node in blk and len(blk) > 1:
                            blk.remove(nf.node)
                            caller.nested.pop(nm, None)

                            def forget(fi: FuncInfo):
                                self.functions.pop(fi.fq, None)
                                for n_ in list(fi.nested.values()):
                                    forget(n_)
                            forget(nf)

    # -- N19 / N20 ------------------------------------------------------------------------------------------------------------
    def _expand_keyword_helpers(self):
        """N19  `C(**h(a, b), k=v)` / `d = h(a, b)` where h is a function of the same module whose body is a straight line
                 `x = ..; y = ..; return {'k1': E1, 'k2': E2}` (constant keys): the assignments of h (locals renamed apart,
                 parameters replaced by the side-effect free arguments) move in front of the statement, every entry that is not
                 a plain name gets a local of its own, and the call becomes `C(k1=.., k2=.., k=v)` / `d = {...}`.
           N20  a local `d = {'k1': n1, 'k2': n2}` of plain names that is never changed and only read as `d['k1']` or `**d`:
                 those reads become `n1` / `k1=n1, k2=n2`, the dictionary goes.
        "The fields every declaration has in common come from one helper" then reads like the constructor calls it replaced."""
        import copy
        import itertools
        counter = itertools.count(1)

        def pure(e) -> bool:
            return all(isinstance(x, (ast.Name, ast.Attribute, ast.Constant, ast.expr_context)) for x in ast.walk(e))

        def dict_helper(caller: FuncInfo, call: ast.expr):
            if not (isinstance(call, ast.Call) and isinstance(call.func, ast.Name) and not call.keywords and
                    all(pure(a) and not isinstance(a, ast.Starred) for a in call.args)):
                return None
            h = self.resolve_name(caller.module, call.func.id)
            if not (isinstance(h, FuncInfo) and h.module is caller.module and h.cls is None and h.parent is None and h is not caller):
                return None
            a = h.node.args
            if a.vararg or a.kwarg or a.kwonlyargs or a.defaults or len(a.posonlyargs) + len(a.args) != len(call.args):
                return None
            body = [st for st in h.node.body if not (isinstance(st, ast.Expr) and isinstance(st.value, ast.Constant))]
            if not body or not isinstance(body[-1], ast.Return):
                return None
            d = body[-1].value
            is_record = False
            if isinstance(d, ast.Call) and isinstance(d.func, ast.Name) and not any(isinstance(x, ast.Starred) for x in d.args) and \
                    all(k.arg for k in d.keywords):
                # a record of the module (NamedTuple / dataclass without __init__ or __post_init__) built by the helper: its
                # fields, by name
                rc = self.resolve_name(h.module, d.func.id)
                if isinstance(rc, ClassInfo) and (rc.is_dataclass or any(str(b).split('.')[-1] == 'NamedTuple' for b in rc.bases)) and \
                        not any(self.lookup_method(rc, m_) for m_ in ('__init__', '__post_init__', '__new__')):
                    fields_ = list(self.class_fields(rc))
                    if len(d.args) + len(d.keywords) == len(fields_) and all(k.arg in fields_ for k in d.keywords):
                        vals_ = dict(zip(fields_, d.args))
                        vals_.update({k.arg: k.value for k in d.keywords})
                        if set(vals_) == set(fields_):
                            d = ast.Dict(keys=[ast.Constant(value=f_) for f_ in fields_], values=[vals_[f_] for f_ in fields_])
                            is_record = any(str(b).split('.')[-1] == 'NamedTuple' for b in rc.bases) and 'nt' or 'dc'
            if not isinstance(d, ast.Dict):
                return None
            if not d.keys or not all(isinstance(k, ast.Constant) and isinstance(k.value, str) and k.value.isidentifier() for k in d.keys):
                return None
            for st in body[:-1]:
                if not (isinstance(st, ast.Assign) and len(st.targets) == 1 and isinstance(st.targets[0], ast.Name)):
                    return None
            if any(isinstance(x, (ast.Lambda, ast.Yield, ast.YieldFrom, ast.NamedExpr)) for x in ast.walk(h.node)):
                return None
            params = [p_.arg for p_ in list(a.posonlyargs) + list(a.args)]
            stored = {x.id for x in ast.walk(h.node) if isinstance(x, ast.Name) and isinstance(x.ctx, ast.Store)}
            if stored & set(params):
                return None
            tag = f'__h{next(counter)}'
            binding = dict(zip(params, call.args))

            class Sub(ast.NodeTransformer):
                def visit_Name(s_, node):
                    if node.id in stored:
                        return ast.copy_location(ast.Name(id=node.id + tag, ctx=node.ctx), node)
                    if node.id in binding and isinstance(node.ctx, ast.Load):
                        return copy.deepcopy(binding[node.id])
                    return node
            pre = [Sub().visit(copy.deepcopy(st)) for st in body[:-1]]
            entries = []
            for k, v in zip(d.keys, d.values):
                v2 = Sub().visit(copy.deepcopy(v))
                if not isinstance(v2, (ast.Name, ast.Constant)):
                    nm = f'{k.value}{tag}'
                    pre.append(ast.Assign(targets=[ast.Name(id=nm, ctx=ast.Store())], value=v2))
                    v2 = ast.Name(id=nm, ctx=ast.Load())
                entries.append((k.value, v2))
            for st in pre:
                for x in ast.walk(st):
                    if isinstance(x, (ast.expr, ast.stmt)):
                        ast.copy_location(x, call)
                ast.fix_missing_locations(st)
            return h, pre, entries, is_record

        def record_uses_ok(caller: FuncInfo, name: str, fields_: List[str], kind: str) -> Optional[list]:
            """every read of the record local is `name.<field>` or `**name._asdict()` (NamedTuple): the reads, else None"""
            parents = {id(c_): p_ for p_ in ast.walk(caller.node) for c_ in ast.iter_child_nodes(p_)}
            uses = [x for x in ast.walk(caller.node) if isinstance(x, ast.Name) and x.id == name and isinstance(x.ctx, ast.Load)]
            out = []
            for u in uses:
                p_ = parents.get(id(u))
                if isinstance(p_, ast.Attribute) and p_.value is u and isinstance(p_.ctx, ast.Load) and p_.attr in fields_:
                    out.append(('field', u, p_, parents.get(id(p_))))
                    continue
                if kind == 'nt' and isinstance(p_, ast.Attribute) and p_.attr == '_asdict':
                    c_ = parents.get(id(p_))
                    k_ = parents.get(id(c_)) if isinstance(c_, ast.Call) and not c_.args and not c_.keywords else None
                    if isinstance(k_, ast.keyword) and k_.arg is None and k_.value is c_:
                        out.append(('asdict', u, k_, parents.get(id(k_))))
                        continue
                return None
            return out

        changed_fns = []
        for caller in list(self.functions.values()):
            blocks = []
            for n in ast.walk(caller.node):
                for fld in ('body', 'orelse', 'finalbody'):
                    blk = getattr(n, fld, None)
                    if isinstance(blk, list) and blk and isinstance(blk[0], ast.stmt):
                        blocks.append(blk)
                if isinstance(n, ast.Try):
                    blocks.extend(h_.body for h_ in n.handlers)
            touched = False
            for blk in blocks:
                i = 0
                while i < len(blk):
                    st = blk[i]
                    top = st.value if isinstance(st, (ast.Return, ast.Assign, ast.Expr)) and getattr(st, 'value', None) is not None else None
                    done = False
                    # d = h(...)
                    if isinstance(st, ast.Assign) and len(st.targets) == 1 and isinstance(st.targets[0], ast.Name):
                        r = dict_helper(caller, top)
                        if r is not None and r[3]:
                            # a record: only when the local is read by field / unpacked with _asdict, which then read the dict
                            reads = record_uses_ok(caller, st.targets[0].id, [k for k, _v in r[1 + 1]], r[3])
                            if reads is None or sum(1 for x in ast.walk(caller.node) if isinstance(x, ast.Name) and
                                                    x.id == st.targets[0].id and isinstance(x.ctx, ast.Store)) != 1:
                                r = None
                            else:
                                for kind_, u_, node_, holder_ in reads:
                                    if kind_ == 'field':
                                        new_ = ast.copy_location(ast.Subscript(value=u_, slice=ast.Constant(value=node_.attr), ctx=ast.Load()), node_)
                                        for fld_, val_ in ast.iter_fields(holder_):
                                            if val_ is node_:
                                                setattr(holder_, fld_, new_)
                                            elif isinstance(val_, list):
                                                for k2_, item_ in enumerate(val_):
                                                    if item_ is node_:
                                                        val_[k2_] = new_
                                    else:
                                        node_.value = u_
                                ast.fix_missing_locations(caller.node)
                        if r is not None:
                            h, pre, entries = r[:3]
                            st.value = ast.copy_location(ast.Dict(keys=[ast.Constant(value=k) for k, _v in entries],
                                                                  values=[v for _k, v in entries]), top)
                            ast.fix_missing_locations(st)
                            blk[i:i] = pre
                            i += len(pre)
                            self.inlined.append((caller.fq, h.fq))
                            touched = done = True
                    # C(**h(...), k=v): the ** entry is the first thing the call evaluates after plain names
                    if not done and isinstance(top, ast.Call) and not top.args or (
                            not done and isinstance(top, ast.Call) and all(pure(a_) for a_ in top.args)):
                        for ki, kw in enumerate(top.keywords):
                            if kw.arg is None:
                                if not all(pure(k2.value) for k2 in top.keywords[:ki]):
                                    break
                                kwv = kw.value
                                via_asdict = isinstance(kwv, ast.Call) and isinstance(kwv.func, ast.Attribute) and \
                                    kwv.func.attr == '_asdict' and not kwv.args and not kwv.keywords
                                r = dict_helper(caller, kwv.func.value if via_asdict else kwv)
                                if r is None or (via_asdict and r[3] != 'nt') or (not via_asdict and r[3]):
                                    break
                                h, pre, entries = r[:3]
                                if {k for k, _v in entries} & {k2.arg for k2 in top.keywords if k2.arg}:
                                    break
                                top.keywords[ki:ki + 1] = [ast.keyword(arg=k, value=v) for k, v in entries]
                                ast.fix_missing_locations(st)
                                blk[i:i] = pre
                                i += len(pre)
                                self.inlined.append((caller.fq, h.fq))
                                touched = True
                                break
                    i += 1
            # N20
            defs = [(blk, st) for blk in blocks for st in blk if isinstance(st, ast.Assign) and len(st.targets) == 1 and
                    isinstance(st.targets[0], ast.Name) and isinstance(st.value, ast.Dict) and st.value.keys and
                    all(isinstance(k, ast.Constant) and isinstance(k.value, str) and k.value.isidentifier() for k in st.value.keys) and
                    all(isinstance(v, (ast.Name, ast.Constant)) for v in st.value.values)]
            for blk, st in defs:
                nm = st.targets[0].id
                occ = [x for x in ast.walk(caller.node) if isinstance(x, ast.Name) and x.id == nm]
                if sum(isinstance(x.ctx, ast.Store) for x in occ) != 1:
                    continue
                vals = dict(zip([k.value for k in st.value.keys], st.value.values))
                val_names = {v.id for v in vals.values() if isinstance(v, ast.Name)}
                # the names the dictionary holds are not re-bound afterwards (write-once locals / parameters)
                if any(sum(1 for x in ast.walk(caller.node) if isinstance(x, ast.Name) and x.id == vn and isinstance(x.ctx, ast.Store)) > 1
                       for vn in val_names):
                    continue
                parents = {id(c_): p_ for p_ in ast.walk(caller.node) for c_ in ast.iter_child_nodes(p_)}
                ok = True
                uses = [x for x in occ if isinstance(x.ctx, ast.Load)]
                for u in uses:
                    p_ = parents.get(id(u))
                    if isinstance(p_, ast.Subscript) and p_.value is u and isinstance(p_.ctx, ast.Load) and \
                            isinstance(p_.slice, ast.Constant) and p_.slice.value in vals:
                        continue
                    if isinstance(p_, ast.keyword) and p_.arg is None and p_.value is u:
                        c_ = parents.get(id(p_))
                        if isinstance(c_, ast.Call) and not ({k2.arg for k2 in c_.keywords if k2.arg} & set(vals)):
                            continue
                    ok = False
                if not ok or not uses:
                    continue
                for u in uses:
                    p_ = parents.get(id(u))
                    if isinstance(p_, ast.Subscript):
                        gp = parents.get(id(p_))
                        new = copy.deepcopy(vals[p_.slice.value])
                        ast.copy_location(new, p_)
                        for fld, val in ast.iter_fields(gp):
                            if val is p_:
                                setattr(gp, fld, new)
                            elif isinstance(val, list):
                                for k_, item in enumerate(val):
                                    if item is p_:
                                        val[k_] = new
                    else:
                        c_ = parents.get(id(p_))
                        idx = c_.keywords.index(p_)
                        c_.keywords[idx:idx + 1] = [ast.keyword(arg=k, value=copy.deepcopy(v)) for k, v in vals.items()]
                        ast.fix_missing_locations(c_)
                blk.remove(st)
                touched = True
            if touched:
                changed_fns.append(caller)
        for f in changed_fns:
            normalise_tree(f.node)
        if changed_fns:
            for mod in self.modules.values():
                for node in ast.walk(mod.tree):
                    for child in ast.iter_child_nodes(node):
                        self._parents[id(child)] = node

    # -- N11 --------------------------------------------------------------------------------------------------------------
    def _inline_void_procedures(self):
        """N11  a call STATEMENT `helper(args)` / `self.helper(args)` of a procedure of the same module whose body uses `return`
        only as a guard (`if c: return` at the top level, or as its last statement) is replaced by the body, guards turned
        into nesting, parameters substituted (side-effect free arguments only), locals renamed apart:
            def check(cfg, ports):                       check(c, pp)      ->      if c:
                if not cfg: return                                                       if not any(p.m for p in pp):
                if any(p.m for p in ports): return                                            raise E(...)
                raise E(...)
        "Extract a validation procedure" keeps the shape the rules look for in the caller."""
        import copy
        import itertools
        counter = itertools.count(1)

        def pure(e) -> bool:
            return all(isinstance(x, (ast.Name, ast.Attribute, ast.Constant, ast.expr_context)) for x in ast.walk(e))

        def body_of(f: FuncInfo, want_value: bool = False) -> Optional[List[ast.stmt]]:
            if f.is_property or f.is_setter or f.parent is not None or (f.node.decorator_list and not f.is_static):
                return None
            if f.nested and not want_value:
                return None
            a = f.node.args
            if a.vararg or a.kwarg:
                return None
            body = [st for st in f.node.body
                    if not (isinstance(st, ast.Expr) and isinstance(st.value, ast.Constant) and isinstance(st.value.value, str))]
            if not body or len(body) > (40 if want_value else 12):
                return None
            for x in ast.walk(f.node):
                if isinstance(x, (ast.Yield, ast.YieldFrom, ast.Global, ast.Nonlocal, ast.Await)):
                    return None
                if isinstance(x, (ast.Lambda, ast.Try, ast.With)) and not want_value:
                    return None
            if want_value:
                # N13: a straight-line procedure whose only `return` is its last statement and carries the value
                rets = [x for x in iter_own_nodes(f.node) if isinstance(x, ast.Return)]
                if len(rets) != 1 or rets[0] is not body[-1] or rets[0].value is None:
                    return None
                return body
            # returns: bare, and only as `if c: return` at the top level or as the final statement
            allowed = set()
            for i, st in enumerate(body):
                if isinstance(st, ast.If) and not st.orelse and len(st.body) == 1 and isinstance(st.body[0], ast.Return):
                    allowed.add(id(st.body[0]))
                if i == len(body) - 1 and isinstance(st, ast.Return):
                    allowed.add(id(st))
            for x in ast.walk(f.node):
                if isinstance(x, ast.Return):
                    if id(x) not in allowed or not (x.value is None or (isinstance(x.value, ast.Constant) and x.value.value is None)):
                        return None
            return body

        def nest(body: List[ast.stmt]) -> List[ast.stmt]:
            out: List[ast.stmt] = []
            for i, st in enumerate(body):
                if isinstance(st, ast.If) and not st.orelse and len(st.body) == 1 and isinstance(st.body[0], ast.Return):
                    rest = nest(body[i + 1:])
                    if rest:
                        test = st.test.operand if isinstance(st.test, ast.UnaryOp) and isinstance(st.test.op, ast.Not) \
                            else ast.copy_location(ast.UnaryOp(op=ast.Not(), operand=st.test), st.test)
                        out.append(ast.copy_location(ast.If(test=test, body=rest, orelse=[]), st))
                    return out
                if isinstance(st, ast.Return):
                    return out
                out.append(st)
            return out

        # only procedures with a single call site in the package: an extracted step of one function, not a shared validator
        # (those are analysed as functions with conditions on their arguments)
        n_sites: Dict[str, int] = {}
        for mod in self.modules.values():
            for x in ast.walk(mod.tree):
                if isinstance(x, ast.Call):
                    nm = x.func.id if isinstance(x.func, ast.Name) else x.func.attr if isinstance(x.func, ast.Attribute) else None
                    if nm:
                        n_sites[nm] = n_sites.get(nm, 0) + 1
        for _round in range(2):
            changed = False
            for caller in list(self.functions.values()):
                for par in list(ast.walk(caller.node)):
                    for fld in ('body', 'orelse', 'finalbody'):
                        blk = getattr(par, fld, None)
                        if not (isinstance(blk, list) and blk and isinstance(blk[0], ast.stmt)):
                            continue
                        for i, st in enumerate(blk):
                            want_value = False
                            if isinstance(st, ast.Expr) and isinstance(st.value, ast.Call):
                                call = st.value
                            elif isinstance(st, ast.Assign) and len(st.targets) == 1 and isinstance(st.targets[0], ast.Name) and \
                                    isinstance(st.value, ast.Call):
                                call, want_value = st.value, True        # N13: `x = helper(args)`
                            elif isinstance(st, ast.Return) and isinstance(st.value, ast.Call):
                                call, want_value = st.value, True
                            else:
                                continue
                            outer_call = None
                            if want_value:
                                # `return Cls(obj.helper('tag', parse_x))`: the templated helper call may be the only impure
                                # argument of a constructor / function call; what is evaluated before it must be pure
                                def pure_(e_) -> bool:
                                    return all(isinstance(x, (ast.Name, ast.Attribute, ast.Constant, ast.expr_context, ast.keyword))
                                               for x in ast.walk(e_))
                                inner = [a_ for a_ in list(call.args) + [k_.value for k_ in call.keywords] if isinstance(a_, ast.Call)]
                                others = [a_ for a_ in list(call.args) + [k_.value for k_ in call.keywords] if not isinstance(a_, ast.Call)]
                                if len(inner) == 1 and all(pure_(a_) for a_ in others) and pure_(call.func) and (
                                        any(isinstance(self.resolve_expr_symbol(caller.module, x), (FuncInfo, ClassInfo))
                                            for x in list(inner[0].args) + [k_.value for k_ in inner[0].keywords]
                                            if isinstance(x, (ast.Name, ast.Attribute)))):
                                    outer_call, call = call, inner[0]
                            fnm = call.func.id if isinstance(call.func, ast.Name) else getattr(call.func, 'attr', None)
                            # a "template" helper: called with a function / class of the package as an argument (a parser, a
                            # factory ...): every call site is an instantiation of the template, inlined at each of them
                            def is_ref(a_) -> bool:
                                sym_ = self.resolve_expr_symbol(caller.module, a_) if isinstance(a_, (ast.Name, ast.Attribute)) else None
                                return isinstance(sym_, (FuncInfo, ClassInfo))
                            templated = any(is_ref(a_) for a_ in call.args) or any(is_ref(k_.value) for k_ in call.keywords)
                            # (a small private step of the module - a shared validation, an opener - is expanded at each of its
                            #  few call sites as well: decided below, when its body is known)
                            multi_site = n_sites.get(fnm, 0) != 1 and not templated
                            if multi_site and not (isinstance(call.func, ast.Name) and fnm and fnm.startswith('_') and
                                                   not fnm.startswith('__') and n_sites.get(fnm, 0) <= 12):
                                continue
                            callee, recv = None, None
                            if isinstance(call.func, ast.Attribute) and isinstance(call.func.value, ast.Name) and \
                                    call.func.value.id not in ('self', 'cls') and templated:
                                # a method of a helper object held by a single-definition local (`elt = ElementHelper(...)`)
                                ov = call.func.value.id
                                ds = [x for x in ast.walk(caller.node) if isinstance(x, ast.Assign) and len(x.targets) == 1 and
                                      isinstance(x.targets[0], ast.Name) and x.targets[0].id == ov]
                                st_ = [x for x in ast.walk(caller.node) if isinstance(x, ast.Name) and x.id == ov and isinstance(x.ctx, ast.Store)]
                                if len(ds) == 1 and len(st_) == 1 and isinstance(ds[0].value, ast.Call):
                                    csym = self.resolve_expr_symbol(caller.module, ds[0].value.func)
                                    if isinstance(csym, ClassInfo) and csym.module is caller.module:
                                        m = self.lookup_method(csym, call.func.attr)
                                        if m is not None and not m.is_static and not m.is_classmethod and not m.is_property:
                                            callee, recv = m, call.func.value
                            if isinstance(call.func, ast.Name):
                                sym = self.resolve_name(caller.module, call.func.id)
                                if isinstance(sym, FuncInfo) and sym.module is caller.module and sym.cls is None and sym is not caller:
                                    callee = sym
                            elif isinstance(call.func, ast.Attribute) and isinstance(call.func.value, ast.Name) and \
                                    call.func.value.id == 'self' and caller.cls is not None and caller.parent is None:
                                m = self.lookup_method(caller.cls, call.func.attr)
                                if m is not None and m.module is caller.module and m is not caller and not any(
                                        isinstance(d_, ast.Name) and d_.id == 'classmethod' for d_ in m.node.decorator_list):
                                    callee, recv = m, (call.func.value if not m.is_static else None)
                            if callee is None:
                                continue
                            if want_value and not callee.name.startswith('_') and not templated:
                                continue        # N13 only for private steps: public functions are units of their own for the rules
                            body = body_of(callee, want_value)
                            if body is None or any(isinstance(a_, ast.Starred) for a_ in call.args) or \
                                    any(k.arg is None for k in call.keywords):
                                continue
                            if multi_site and (len(body) > 4 or callee.cls is not None):
                                continue
                            if any(isinstance(x, ast.Call) and self._same_callee(callee, x) for b_ in body for x in ast.walk(b_)):
                                continue
                            a = callee.node.args
                            params = [p_.arg for p_ in list(a.posonlyargs) + list(a.args)]
                            binding: Dict[str, ast.expr] = {}
                            if recv is not None and params[:1] == ['self']:
                                binding['self'] = recv
                                params = params[1:]
                            if len(call.args) > len(params):
                                continue
                            binding.update(dict(zip(params, call.args)))
                            ok = True
                            for k in call.keywords:
                                if k.arg in binding:
                                    ok = False
                                binding[k.arg] = k.value
                            pos_all = list(a.posonlyargs) + list(a.args)
                            defaults = dict(zip([x.arg for x in pos_all][len(pos_all) - len(a.defaults):], a.defaults))
                            for p_ in params + [x.arg for x in a.kwonlyargs]:
                                if p_ not in binding:
                                    if p_ in defaults and pure(defaults[p_]):
                                        binding[p_] = defaults[p_]
                                    else:
                                        ok = False
                            if not ok or not all(pure(v) for v in binding.values()):
                                continue
                            # parameters must not be re-assigned in the body
                            stored = {x.id for b_ in body for x in ast.walk(b_) if isinstance(x, ast.Name) and isinstance(x.ctx, ast.Store)}
                            stored |= {x.name for b_ in body for x in ast.walk(b_) if isinstance(x, (ast.FunctionDef, ast.AsyncFunctionDef))}
                            stored |= {a_.arg for b_ in body for x in ast.walk(b_) if isinstance(x, (ast.FunctionDef, ast.Lambda))
                                       for a_ in x.args.args + x.args.kwonlyargs}
                            if stored & set(binding):
                                continue
                            tag = next(counter)
                            # names of the callee keep their spelling when the caller does not use them (the usual case for an
                            # extracted step); otherwise they are renamed apart
                            caller_names = {x.id for x in ast.walk(caller.node) if isinstance(x, ast.Name)} | \
                                {a_.arg for a_ in caller.node.args.args + caller.node.args.kwonlyargs}
                            rename = {nm: f'{nm}__p{tag}' for nm in stored if nm in caller_names}

                            class Sub(ast.NodeTransformer):
                                def visit_FunctionDef(self, node):
                                    self.generic_visit(node)
                                    if node.name in rename:
                                        node.name = rename[node.name]
                                    return node

                                def visit_arg(self, node):
                                    if node.arg in rename:
                                        node.arg = rename[node.arg]
                                    return node

                                def visit_Name(self, node):
                                    if node.id in rename:
                                        return ast.copy_location(ast.Name(id=rename[node.id], ctx=node.ctx), node)
                                    if node.id in binding and isinstance(node.ctx, ast.Load):
                                        return copy.deepcopy(binding[node.id])
                                    return node
                            if want_value:
                                pre = [Sub().visit(copy.deepcopy(b_)) for b_ in body[:-1]]
                                val = Sub().visit(copy.deepcopy(body[-1].value))
                                last = copy.copy(st)
                                if outer_call is not None:
                                    oc = copy.copy(outer_call)
                                    oc.args = [val if a_ is call else a_ for a_ in outer_call.args]
                                    oc.keywords = [ast.keyword(arg=k_.arg, value=val) if k_.value is call else k_ for k_ in outer_call.keywords]
                                    last.value = oc
                                else:
                                    last.value = val
                                new = pre + [last]
                            else:
                                new = [Sub().visit(copy.deepcopy(b_)) for b_ in nest(body)]
                            if not new:
                                new = [ast.Pass()]
                            for n_ in new:
                                for x in ast.walk(n_):
                                    if isinstance(x, (ast.expr, ast.stmt)):
                                        x.lineno, x.col_offset = getattr(st, 'lineno', 0), getattr(st, 'col_offset', 0)
                                        x.end_lineno, x.end_col_offset = getattr(st, 'end_lineno', 0), getattr(st, 'end_col_offset', 0)
                            blk[i:i + 1] = new
                            self.inlined.append((caller.fq, callee.fq))
                            own_ids_ = {id(y_) for y_ in ast.walk(callee.node)}
                            if callee.name.startswith('_') and not callee.name.startswith('__') and n_sites.get(fnm, 0) == 1 and not any(
                                    isinstance(x_, (ast.Name, ast.Attribute)) and getattr(x_, 'id', getattr(x_, 'attr', None)) == callee.name
                                    for x_ in ast.walk(callee.module.tree) if id(x_) not in own_ids_):
                                # a private step with this single call site: everything it does is in the caller now (unless an earlier
                                # expansion copied the call somewhere else)
                                self._drop_function(callee)
                            changed = True
                            break
            if not changed:
                break

    def _drop_function(self, f: FuncInfo):
        container = f.cls.node.body if f.cls is not None and f.parent is None else f.module.tree.body if f.parent is None else None
        if container is None or f.node not in container or len(container) <= 1:
            return
        container.remove(f.node)
        if f.cls is not None:
            f.cls.methods.pop(f.name, None)
        else:
            f.module.functions.pop(f.name, None)

        def forget(fi: FuncInfo):
            self.functions.pop(fi.fq, None)
            for n_ in list(fi.nested.values()):
                forget(n_)
        forget(f)

    # -- N8 / N9 / N10 -------------------------------------------------------------------------------------------------
    def _unroll_literal_iterations(self):
        """N8   `for a, b in ((x1, y1), (x2, y2)): BODY`  (a literal sequence of at most 6 side-effect free elements, possibly
                  through a single-definition local; no break / continue / else; the targets are not used elsewhere)
                  ->  BODY[a:=x1, b:=y1]; BODY[a:=x2, b:=y2]
           N9   `Cls.method(obj, args)` with Cls a class of the package and `method` an instance method  ->  `obj.method(args)`
           N8'  `[E for a in LIT]` / `{K: V for a in LIT}` over a literal or a module-level constant tuple  ->  the display
           N12  `f(**{'a': x})`  ->  `f(a=x)`
           N10  `next((E for a in LIT if C), D)`  ->  `E1 if C1 else E2 if C2 else ... D`;
                `any(C for a in LIT)` / `all(...)`  ->  `C1 or C2 ...` / `C1 and C2 ...`
        Table-driven code ("a tuple of (matcher, result) rules tried in order") and the if / elif chain it replaces have the
        same normal form."""
        import copy

        def pure(e) -> bool:
            return all(isinstance(x, (ast.Name, ast.Attribute, ast.Constant, ast.expr_context)) for x in ast.walk(e))

        def pure_test(e) -> bool:
            return all(isinstance(x, (ast.Name, ast.Attribute, ast.Constant, ast.Compare, ast.BoolOp, ast.UnaryOp, ast.expr_context,
                                      ast.cmpop, ast.boolop, ast.unaryop)) for x in ast.walk(e))

        def const_dict_written(name: str) -> bool:
            for m_ in self.modules.values():
                for x in ast.walk(m_.tree):
                    if isinstance(x, ast.Subscript) and isinstance(x.ctx, (ast.Store, ast.Del)) and \
                            getattr(x.value, 'id', getattr(x.value, 'attr', None)) == name:
                        return True
                    if isinstance(x, ast.Call) and isinstance(x.func, ast.Attribute) and x.func.attr in (
                            'update', 'pop', 'popitem', 'clear', 'setdefault', '__setitem__', '__delitem__') and \
                            getattr(x.func.value, 'id', getattr(x.func.value, 'attr', None)) == name:
                        return True
            return False

        def literal_elems(fnode, it: ast.expr, mod_=None) -> Optional[List[ast.expr]]:
            # itertools.product(A, B) of two literal / constant sequences: the pairs, first factor slowest (at most 8)
            if isinstance(it, ast.Call) and not it.keywords and len(it.args) == 2 and mod_ is not None and \
                    isinstance(it.func, (ast.Name, ast.Attribute)):
                psym = self.resolve_expr_symbol(mod_, it.func)
                if isinstance(psym, tuple) and psym[0] == 'ext' and psym[1] == 'itertools.product':
                    fa, fb = literal_elems(fnode, it.args[0], mod_), literal_elems(fnode, it.args[1], mod_)
                    if fa is not None and fb is not None and len(fa) * len(fb) <= 8:
                        return [ast.Tuple(elts=[copy.deepcopy(a_), copy.deepcopy(b_)], ctx=ast.Load()) for a_ in fa for b_ in fb]
                    return None
            # a module-level dict display of constants that nothing writes: `T.items()` / `T.keys()` / `T.values()` / `T`
            view = None
            base = it
            if isinstance(it, ast.Call) and isinstance(it.func, ast.Attribute) and it.func.attr in ('items', 'keys', 'values') and \
                    not it.args and not it.keywords:
                view, base = it.func.attr, it.func.value
            if isinstance(base, ast.Name) and mod_ is not None and (view is not None) and not any(
                    isinstance(x, ast.Name) and x.id == base.id and isinstance(x.ctx, ast.Store) for x in ast.walk(fnode)) and \
                    base.id not in [a.arg for a in fnode.args.args + fnode.args.kwonlyargs]:
                sym = self.resolve_name(mod_, base.id)
                if isinstance(sym, tuple) and sym[0] == 'const' and isinstance(sym[1], ast.Dict) and 1 <= len(sym[1].keys) <= 8 and \
                        all(isinstance(k_, ast.Constant) for k_ in sym[1].keys) and sym[2] is mod_ and not const_dict_written(base.id):
                    d_ = sym[1]
                    if view == 'keys':
                        return list(d_.keys)
                    if view == 'values':
                        return list(d_.values)
                    return [ast.Tuple(elts=[k_, v_], ctx=ast.Load()) for k_, v_ in zip(d_.keys, d_.values)]
            if isinstance(it, ast.Name) and mod_ is not None and not any(
                    isinstance(x, ast.Name) and x.id == it.id and isinstance(x.ctx, ast.Store) for x in ast.walk(fnode)) and \
                    it.id not in [a.arg for a in fnode.args.args + fnode.args.kwonlyargs]:
                sym = self.resolve_name(mod_, it.id)
                if isinstance(sym, tuple) and sym[0] == 'const' and isinstance(sym[1], ast.Tuple) and 1 <= len(sym[1].elts) <= 8:
                    return list(sym[1].elts)        # an (immutable) module-level tuple
            if isinstance(it, ast.Name):
                stores = [x for x in ast.walk(fnode) if isinstance(x, ast.Name) and x.id == it.id and isinstance(x.ctx, ast.Store)]
                defs = [x for x in ast.walk(fnode) if isinstance(x, ast.Assign) and len(x.targets) == 1 and
                        isinstance(x.targets[0], ast.Name) and x.targets[0].id == it.id]
                if len(stores) != 1 or len(defs) != 1 or it.id in [a.arg for a in fnode.args.args + fnode.args.kwonlyargs]:
                    return None
                it = defs[0].value
            if not isinstance(it, (ast.Tuple, ast.List)) or not (1 <= len(it.elts) <= 6):
                return None
            if any(isinstance(x, ast.Starred) for x in it.elts):
                return None
            return list(it.elts)

        def bindings(target, elems) -> Optional[List[Dict[str, ast.expr]]]:
            out = []
            for el in elems:
                if isinstance(target, ast.Name):
                    if not pure(el):
                        return None
                    out.append({target.id: el})
                elif isinstance(target, (ast.Tuple, ast.List)) and all(isinstance(t, ast.Name) for t in target.elts) and \
                        isinstance(el, (ast.Tuple, ast.List)) and len(el.elts) == len(target.elts) and all(pure(x) for x in el.elts):
                    out.append({t.id: v for t, v in zip(target.elts, el.elts)})
                elif isinstance(target, (ast.Tuple, ast.List)) and isinstance(el, (ast.Tuple, ast.List)) and len(el.elts) == len(target.elts):
                    # nested targets `(a, b), (c, d)` against nested displays
                    b_: Dict[str, ast.expr] = {}
                    for t, v in zip(target.elts, el.elts):
                        sub = bindings(t, [v])
                        if sub is None:
                            return None
                        b_.update(sub[0])
                    out.append(b_)
                else:
                    return None
            return out

        def subst(node, binding):
            class Sub(ast.NodeTransformer):
                def visit_Name(self, n):
                    if n.id in binding and isinstance(n.ctx, ast.Load):
                        return ast.copy_location(copy.deepcopy(binding[n.id]), n)
                    return n
            return Sub().visit(copy.deepcopy(node))

        def names_stored(nodes) -> Set[str]:
            return {x.id for n in nodes for x in ast.walk(n) if isinstance(x, ast.Name) and isinstance(x.ctx, ast.Store)}

        def fold_membership(fnode, stmt):
            """N21  what unrolling a table of constants leaves behind:  `K in (K, x)` -> True;  `K in (c, x)` -> `x == K`;
                 `b == True` -> b, `b == False` -> not b for a local b that is bound once to `bool(..)` / a comparison / `not ..`;
                 `X and True` -> X, `X and False` -> False (likewise for or)."""
            def boolean_local(e_):
                if not isinstance(e_, ast.Name):
                    return False
                defs_ = [a_ for a_ in ast.walk(fnode) if isinstance(a_, ast.Assign) and len(a_.targets) == 1 and
                         isinstance(a_.targets[0], ast.Name) and a_.targets[0].id == e_.id]
                stores_ = [x_ for x_ in ast.walk(fnode) if isinstance(x_, ast.Name) and x_.id == e_.id and isinstance(x_.ctx, ast.Store)]
                if len(defs_) != 1 or len(stores_) != 1:
                    return False
                v_ = defs_[0].value
                return (isinstance(v_, ast.Call) and isinstance(v_.func, ast.Name) and v_.func.id == 'bool') or \
                    isinstance(v_, ast.Compare) or (isinstance(v_, ast.UnaryOp) and isinstance(v_.op, ast.Not))

            class F(ast.NodeTransformer):
                def visit_Compare(s2, node):
                    s2.generic_visit(node)
                    if len(node.ops) != 1:
                        return node
                    op_, l_, r_ = node.ops[0], node.left, node.comparators[0]
                    if isinstance(op_, (ast.In, ast.NotIn)) and isinstance(l_, ast.Constant) and isinstance(r_, (ast.Tuple, ast.List)) and \
                            r_.elts and all(isinstance(x_, ast.Constant) or pure(x_) for x_ in r_.elts):
                        def same(a_, b_):
                            return type(a_.value) is type(b_.value) and a_.value == b_.value
                        if any(isinstance(x_, ast.Constant) and same(x_, l_) for x_ in r_.elts):
                            res_ = ast.Constant(value=True)
                        else:
                            rest_ = [x_ for x_ in r_.elts if not isinstance(x_, ast.Constant)]
                            if not rest_:
                                res_ = ast.Constant(value=False)
                            else:
                                terms_ = [ast.Compare(left=x_, ops=[ast.Eq()], comparators=[ast.Constant(value=l_.value)]) for x_ in rest_]
                                res_ = terms_[0] if len(terms_) == 1 else ast.BoolOp(op=ast.Or(), values=terms_)
                        if isinstance(op_, ast.NotIn):
                            res_ = ast.UnaryOp(op=ast.Not(), operand=res_) if not isinstance(res_, ast.Constant) else ast.Constant(value=not res_.value)
                        return s2.visit(ast.copy_location(res_, node)) if not isinstance(res_, ast.Constant) else ast.copy_location(res_, node)
                    if isinstance(op_, (ast.Eq, ast.Is)) and isinstance(r_, ast.Constant) and isinstance(r_.value, bool) and boolean_local(l_):
                        return l_ if r_.value else ast.copy_location(ast.UnaryOp(op=ast.Not(), operand=l_), node)
                    return node

                def visit_BoolOp(s2, node):
                    s2.generic_visit(node)
                    is_and = isinstance(node.op, ast.And)
                    vals_ = []
                    for v_ in node.values:
                        if isinstance(v_, ast.Constant) and isinstance(v_.value, bool):
                            if v_.value == is_and:
                                continue            # neutral element
                            return ast.copy_location(ast.Constant(value=not is_and), node) if not vals_ else \
                                ast.copy_location(ast.BoolOp(op=node.op, values=vals_ + [v_]), node)
                        vals_.append(v_)
                    if not vals_:
                        return ast.copy_location(ast.Constant(value=is_and), node)
                    return vals_[0] if len(vals_) == 1 else ast.copy_location(ast.BoolOp(op=node.op, values=vals_), node)
            out_ = F().visit(stmt)
            ast.fix_missing_locations(out_)
            return out_

        for mod in self.modules.values():
            for fnode in [n for n in ast.walk(mod.tree) if isinstance(n, (ast.FunctionDef, ast.AsyncFunctionDef))]:
                for _round in range(4):
                    changed = False
                    # N9 first: unbound method calls
                    for c in [n for n in ast.walk(fnode) if isinstance(n, ast.Call)]:
                        if isinstance(c.func, ast.Attribute) and isinstance(c.func.value, (ast.Name, ast.Attribute)) and c.args and \
                                not isinstance(c.args[0], ast.Starred):
                            sym = self.resolve_expr_symbol(mod, c.func.value)
                            if isinstance(sym, ClassInfo):
                                m = self.lookup_method(sym, c.func.attr)
                                if m is not None and not m.is_static and not m.is_property and m.params()[:1] and \
                                        m.params()[0].arg == 'self' and not any(
                                            isinstance(d, ast.Name) and d.id == 'classmethod' for d in m.node.decorator_list):
                                    c.func = ast.copy_location(ast.Attribute(value=c.args[0], attr=c.func.attr, ctx=ast.Load()), c.func)
                                    c.args = c.args[1:]
                                    changed = True
                    # N10: next / any / all over a generator over a literal sequence
                    for par in list(ast.walk(fnode)):
                        for fld, val in list(ast.iter_fields(par)):
                            items = val if isinstance(val, list) else [val]
                            for k, c in enumerate(items):
                                if not (isinstance(c, ast.Call) and isinstance(c.func, ast.Name) and c.func.id in ('next', 'any', 'all')
                                        and c.args and isinstance(c.args[0], (ast.GeneratorExp, ast.ListComp)) and not c.keywords):
                                    continue
                                g = c.args[0]
                                if len(g.generators) != 1 or g.generators[0].is_async:
                                    continue
                                gen = g.generators[0]
                                elems = literal_elems(fnode, gen.iter, mod)
                                bs = bindings(gen.target, elems) if elems is not None else None
                                if bs is None:
                                    continue
                                new = None
                                if c.func.id == 'next' and len(c.args) == 2:
                                    new = c.args[1]
                                    for b in reversed(bs):
                                        test = None
                                        for cnd in gen.ifs:
                                            t_ = subst(cnd, b)
                                            test = t_ if test is None else ast.BoolOp(op=ast.And(), values=[test, t_])
                                        val_ = subst(g.elt, b)
                                        new = val_ if test is None else ast.IfExp(test=test, body=val_, orelse=new)
                                elif c.func.id in ('any', 'all') and len(c.args) == 1 and not gen.ifs:
                                    new = ast.BoolOp(op=ast.Or() if c.func.id == 'any' else ast.And(), values=[subst(g.elt, b) for b in bs])
                                    if len(new.values) == 1:
                                        new = new.values[0]
                                if new is None:
                                    continue
                                for x in ast.walk(new):
                                    ast.copy_location(x, c)
                                if isinstance(val, list):
                                    val[k] = new
                                else:
                                    setattr(par, fld, new)
                                changed = True
                    # N18: `sel = K1 if c1 else K2 if c2 else K3` (constants) followed by the rest of the block, sel used nowhere
                    #      else  ->  `if c1: REST[sel:=K1] elif c2: REST[sel:=K2] else: REST[sel:=K3]`, with `X if K else Y`,
                    #      `K is None` and `if K:` folded for the constants
                    for par in list(ast.walk(fnode)):
                        for fld in ('body', 'orelse', 'finalbody'):
                            blk = getattr(par, fld, None)
                            if not (isinstance(blk, list) and len(blk) >= 2 and isinstance(blk[0], ast.stmt)):
                                continue
                            for bi in range(len(blk) - 1):
                                a_ = blk[bi]
                                rest_ = blk[bi + 1:]
                                if not (isinstance(a_, ast.Assign) and len(a_.targets) == 1 and isinstance(a_.targets[0], ast.Name) and
                                        isinstance(a_.value, ast.IfExp) and 1 <= len(rest_) <= 6):
                                    continue
                                nm = a_.targets[0].id
                                occ = [x for x in ast.walk(fnode) if isinstance(x, ast.Name) and x.id == nm]
                                in_rest = [x for st_ in rest_ for x in ast.walk(st_) if isinstance(x, ast.Name) and x.id == nm]
                                if len(occ) != len(in_rest) + 1 or not in_rest or any(isinstance(x.ctx, ast.Store) for x in in_rest):
                                    continue
                                if any(isinstance(x, (ast.Lambda, ast.FunctionDef, ast.ListComp, ast.SetComp, ast.DictComp, ast.GeneratorExp,
                                                      ast.For, ast.While)) and
                                       any(isinstance(y, ast.Name) and y.id == nm for y in ast.walk(x)) for st_ in rest_ for x in ast.walk(st_)):
                                    continue
                                # the selector steers control (it is tested somewhere in the rest, or the rest is the single
                                # return that uses it) and is not merely a piece of text that is formatted into a string
                                par_of = {id(c_): p_ for st_ in rest_ for p_ in ast.walk(st_) for c_ in ast.iter_child_nodes(p_)}

                                def in_text(x_):
                                    p_ = par_of.get(id(x_))
                                    while p_ is not None:
                                        if isinstance(p_, (ast.JoinedStr, ast.FormattedValue, ast.BinOp)):
                                            return True
                                        p_ = par_of.get(id(p_))
                                    return False

                                def is_tested(x_):
                                    p_ = par_of.get(id(x_))
                                    return (isinstance(p_, ast.Compare)) or (isinstance(p_, (ast.If, ast.IfExp, ast.While)) and p_.test is x_) or \
                                        (isinstance(p_, ast.UnaryOp) and isinstance(p_.op, ast.Not)) or isinstance(p_, ast.BoolOp)
                                if any(in_text(x_) for x_ in in_rest):
                                    continue
                                if not (any(is_tested(x_) for x_ in in_rest) or (len(rest_) == 1 and isinstance(rest_[0], ast.Return))):
                                    continue
                                leaves, tests, e_ = [], [], a_.value
                                while isinstance(e_, ast.IfExp):
                                    tests.append(e_.test)
                                    leaves.append(e_.body)
                                    e_ = e_.orelse
                                leaves.append(e_)
                                if not all(isinstance(x, ast.Constant) for x in leaves) or len(leaves) > 4 or \
                                        not all(pure_test(t_) for t_ in tests):
                                    continue

                                def fold_const(st2):
                                    class F(ast.NodeTransformer):
                                        def visit_IfExp(s2, node):
                                            s2.generic_visit(node)
                                            if isinstance(node.test, ast.Constant):
                                                return node.body if node.test.value else node.orelse
                                            return node

                                        def visit_Compare(s2, node):
                                            s2.generic_visit(node)
                                            if len(node.ops) == 1 and isinstance(node.left, ast.Constant) and \
                                                    isinstance(node.comparators[0], ast.Constant) and \
                                                    isinstance(node.ops[0], (ast.Is, ast.IsNot, ast.Eq, ast.NotEq)):
                                                l_, r_2 = node.left.value, node.comparators[0].value
                                                same = (l_ is r_2) if (l_ is None or r_2 is None) else (l_ == r_2)
                                                return ast.copy_location(ast.Constant(
                                                    value=same if isinstance(node.ops[0], (ast.Is, ast.Eq)) else not same), node)
                                            return node

                                        def visit_UnaryOp(s2, node):
                                            s2.generic_visit(node)
                                            if isinstance(node.op, ast.Not) and isinstance(node.operand, ast.Constant):
                                                return ast.copy_location(ast.Constant(value=not node.operand.value), node)
                                            return node

                                        def visit_If(s2, node):
                                            s2.generic_visit(node)
                                            if isinstance(node.test, ast.Constant):
                                                return (node.body if node.test.value else node.orelse) or [ast.copy_location(ast.Pass(), node)]
                                            return node
                                    r2 = F().visit(st2)
                                    r2 = r2 if isinstance(r2, list) else [r2]
                                    return [x_ for x_ in r2 if not isinstance(x_, ast.Pass)] or r2[:1]

                                def instance(k_):
                                    out_ = []
                                    for st_ in rest_:
                                        out_.extend(fold_const(subst(st_, {nm: k_})))
                                        if out_ and isinstance(out_[-1], (ast.Return, ast.Raise)):
                                            break       # what follows an unconditional return is dead
                                    return out_
                                variants_ = [instance(k_) for k_ in leaves]
                                tail2: List[ast.stmt] = variants_[-1]
                                for t_, v_ in zip(reversed(tests), reversed(variants_[:-1])):
                                    tail2 = [ast.copy_location(ast.If(test=t_, body=v_, orelse=tail2), a_)]
                                for st_ in tail2:
                                    ast.fix_missing_locations(st_)
                                blk[bi:] = tail2
                                changed = True
                                break
                    # N8 (comprehensions): a list / dict comprehension over a literal or constant tuple, no filter -> a display
                    for par in list(ast.walk(fnode)):
                        for fld, val in list(ast.iter_fields(par)):
                            items = val if isinstance(val, list) else [val]
                            for k, c in enumerate(items):
                                is_arg_gen = isinstance(c, ast.GeneratorExp) and isinstance(par, ast.Call) and isinstance(val, list) \
                                    and val is par.args and len(par.args) == 1 and (
                                        (isinstance(par.func, ast.Attribute) and par.func.attr == 'join') or
                                        (isinstance(par.func, ast.Name) and par.func.id in ('list', 'tuple', 'sorted', 'sum', 'set')))
                                if not ((isinstance(c, (ast.ListComp, ast.DictComp)) or is_arg_gen) and len(c.generators) == 1 and
                                        not c.generators[0].ifs and not c.generators[0].is_async):
                                    continue
                                elems = literal_elems(fnode, c.generators[0].iter, mod)
                                bs = bindings(c.generators[0].target, elems) if elems is not None else None
                                if bs is None:
                                    continue
                                if isinstance(c, (ast.ListComp, ast.GeneratorExp)):
                                    new = ast.List(elts=[subst(c.elt, b) for b in bs], ctx=ast.Load())
                                else:
                                    new = ast.Dict(keys=[subst(c.key, b) for b in bs], values=[subst(c.value, b) for b in bs])
                                for x in ast.walk(new):
                                    ast.copy_location(x, c)
                                if isinstance(val, list):
                                    val[k] = new
                                else:
                                    setattr(par, fld, new)
                                changed = True
                    # N14: getattr(x, 'name')  ->  x.name
                    for par in list(ast.walk(fnode)):
                        for fld, val in list(ast.iter_fields(par)):
                            items = val if isinstance(val, list) else [val]
                            for k, c in enumerate(items):
                                if isinstance(c, ast.Call) and isinstance(c.func, ast.Name) and c.func.id == 'getattr' and len(c.args) == 2 \
                                        and not c.keywords and isinstance(c.args[1], ast.Constant) and isinstance(c.args[1].value, str) \
                                        and c.args[1].value.isidentifier():
                                    new = ast.copy_location(ast.Attribute(value=c.args[0], attr=c.args[1].value, ctx=ast.Load()), c)
                                    if isinstance(val, list):
                                        val[k] = new
                                    else:
                                        setattr(par, fld, new)
                                    changed = True
                    # N12: f(**{'a': x, 'b': y})  ->  f(a=x, b=y)
                    for c in [n for n in ast.walk(fnode) if isinstance(n, ast.Call)]:
                        for kw in list(c.keywords):
                            if kw.arg is None and isinstance(kw.value, ast.Dict) and kw.value.keys and all(
                                    isinstance(k_, ast.Constant) and isinstance(k_.value, str) and k_.value.isidentifier()
                                    for k_ in kw.value.keys):
                                idx = c.keywords.index(kw)
                                c.keywords[idx:idx + 1] = [ast.keyword(arg=k_.value, value=v_) for k_, v_ in zip(kw.value.keys, kw.value.values)]
                                changed = True
                    # N8: for statements
                    for par in list(ast.walk(fnode)):
                        for fld in ('body', 'orelse', 'finalbody'):
                            blk = getattr(par, fld, None)
                            if not (isinstance(blk, list) and blk and isinstance(blk[0], ast.stmt)):
                                continue
                            for i, st in enumerate(blk):
                                if not isinstance(st, ast.For) or st.orelse:
                                    continue
                                # `... ; if c: S; break` as the last statement: the first hit ends the search
                                first_hit = None
                                if st.body and isinstance(st.body[-1], ast.If) and not st.body[-1].orelse and st.body[-1].body and \
                                        isinstance(st.body[-1].body[-1], ast.Break):
                                    others = [x for b_ in st.body[:-1] + st.body[-1].body[:-1] for x in ast.walk(b_)]
                                    if not any(isinstance(x, (ast.Break, ast.Continue)) for x in others) and len(st.body[-1].body) > 1:
                                        first_hit = st.body[-1]
                                if first_hit is None and \
                                        any(isinstance(x, (ast.Break, ast.Continue)) for b_ in st.body for x in ast.walk(b_)):
                                    continue
                                elems = literal_elems(fnode, st.iter, mod)
                                bs = bindings(st.target, elems) if elems is not None else None
                                if bs is None:
                                    continue
                                tnames = set(bs[0])
                                if tnames & names_stored(st.body):
                                    continue
                                outside = [x for x in ast.walk(fnode) if isinstance(x, ast.Name) and x.id in tnames]
                                # every occurrence lies in this loop or in another loop / comprehension that binds the same
                                # names itself
                                binders = [st] + [n for n in ast.walk(fnode) if n is not st and (
                                    (isinstance(n, ast.For) and tnames <= {x.id for x in ast.walk(n.target) if isinstance(x, ast.Name)})
                                    or (isinstance(n, (ast.ListComp, ast.SetComp, ast.GeneratorExp, ast.DictComp)) and tnames <= {
                                        x.id for g_ in n.generators for x in ast.walk(g_.target) if isinstance(x, ast.Name)}))
                                    and not any(y is n for y in ast.walk(st))]
                                covered = set()
                                for b_ in binders:
                                    covered |= {id(x) for x in ast.walk(b_) if isinstance(x, ast.Name) and x.id in tnames}
                                if any(id(x) not in covered for x in outside):
                                    continue        # the loop variables are used outside the loop as well
                                new_stmts = []
                                if first_hit is not None:
                                    tail: List[ast.stmt] = []
                                    for b in reversed(bs):
                                        pre = [subst(s_, b) for s_ in st.body[:-1]]
                                        hit = ast.copy_location(ast.If(test=subst(first_hit.test, b),
                                                                       body=[subst(s_, b) for s_ in first_hit.body[:-1]],
                                                                       orelse=tail), first_hit)
                                        tail = pre + [hit]
                                    new_stmts = tail
                                else:
                                    for b in bs:
                                        for s_ in st.body:
                                            new_stmts.append(subst(s_, b))
                                new_stmts = [fold_membership(fnode, s_) for s_ in new_stmts]
                                blk[i:i + 1] = new_stmts
                                changed = True
                                break
                    if not changed:
                        break

    def _same_callee(self, callee: FuncInfo, call: ast.Call) -> bool:
        f = call.func
        return (isinstance(f, ast.Name) and f.id == callee.name and callee.cls is None) or \
            (isinstance(f, ast.Attribute) and f.attr == callee.name and callee.cls is not None)

    def add_synthetic(self, fn: FuncInfo, stmts: List[ast.stmt], suffix: str) -> FuncInfo:
        """A view of `fn` (e.g. its residual under an assumption, dznverif.specialise) as a function of the model of its own:
        parent links, nested functions and the type environment work on it like on any other function.  It is not entered
        into the class / module tables and has no call-graph edges."""
        import copy
        node = copy.copy(fn.node)
        node.body = [copy.deepcopy(s_) for s_ in stmts] or [ast.Pass()]
        node.decorator_list = []
        ast.fix_missing_locations(node)
        for x in ast.walk(node):
            if not hasattr(x, 'lineno') and isinstance(x, (ast.expr, ast.stmt)):
                x.lineno = x.end_lineno = getattr(fn.node, 'lineno', 0)
                x.col_offset = x.end_col_offset = 0
        fi = FuncInfo(fn.name, f'{fn.qualname}<{suffix}>', fn.module, node, fn.cls, None)
        fi.is_static = fn.is_static
        self._parents[id(node)] = self._parents.get(id(fn.node))
        for x in ast.walk(node):
            for ch in ast.iter_child_nodes(x):
                self._parents[id(ch)] = x

        def index_nested(parent_fi: FuncInfo, pnode):
            for sub in self._direct_nested_defs(pnode):
                q = f'{parent_fi.qualname}.{sub.name}'
                nfi = FuncInfo(sub.name, q, fn.module, sub, fn.cls, parent_fi)
                parent_fi.nested[sub.name] = nfi
                index_nested(nfi, sub)
        index_nested(fi, node)
        return fi

    def instantiated_classes(self) -> Set[str]:
        """fq of the package classes that package code constructs somewhere (`C(...)`, or `cls(...)` in a classmethod of C or
        of a base class of C)."""
        cache = self.__dict__.get('_instantiated')
        if cache is None:
            cache = set()
            for mod in self.modules.values():
                for n in ast.walk(mod.tree):
                    if isinstance(n, ast.Call) and isinstance(n.func, (ast.Name, ast.Attribute)):
                        sym = self.resolve_expr_symbol(mod, n.func)
                        if isinstance(sym, ClassInfo):
                            cache.add(sym.fq)
            for f in self.functions.values():
                if getattr(f, 'is_classmethod', False) and f.cls is not None and any(
                        isinstance(n, ast.Call) and isinstance(n.func, ast.Name) and n.func.id == 'cls' for n in ast.walk(f.node)):
                    for c in self.classes.values():
                        if self.is_subclass(c.fq, f.cls.fq):
                            cache.add(c.fq)
            self.__dict__['_instantiated'] = cache
        return cache

    def virtual_targets(self, rc: ClassInfo, name: str, static: 'FuncInfo') -> List['FuncInfo']:
        """The implementations a call `obj.name(...)` may run when obj is statically an `rc`: that of every class at or
        below rc that the package constructs (all of them when it constructs none).  The implementation of rc itself also
        counts when rc is public and concrete - callers may hand in an instance of their own - but not when rc is private
        (`_Base`) or the method is abstract and the package never constructs an rc: a template-method base class whose
        placeholder methods raise NotImplementedError is never the dynamic class."""
        cands = [rc] + [c for c in self.classes.values() if c is not rc and self.is_subclass(c.fq, rc.fq)]
        if len(cands) == 1:
            return [static]
        inst = [c for c in cands if c.fq in self.instantiated_classes()]
        if not inst:
            inst = cands
        out: List[FuncInfo] = []
        for c in inst:
            m = self.lookup_method(c, name)
            if m is not None and m not in out:
                out.append(m)
        abstract = any(ast.unparse(d).endswith('abstractmethod') for d in static.node.decorator_list)
        if rc not in inst and not rc.name.startswith('_') and not abstract and static not in out:
            out.append(static)
        return out or [static]

    def bind_call(self, mod: Module, call: ast.Call, callee: Optional['FuncInfo'] = None) -> Dict[str, ast.expr]:
        """parameter / field name -> argument expression of a call of a package class or function, however the source
        spells it (positional or keyword).  Unresolved callees: the keywords only.  `callee`: the function a type
        environment resolved the call to (method calls on typed receivers), used when the name alone does not say."""
        out: Dict[str, ast.expr] = {}
        sym = self.resolve_expr_symbol(mod, call.func) if isinstance(call.func, (ast.Name, ast.Attribute)) else None
        if not isinstance(sym, (ClassInfo, FuncInfo)) and callee is not None:
            sym = callee
        names: List[str] = []
        if isinstance(sym, ClassInfo):
            init = self.lookup_method(sym, '__init__')
            names = [a.arg for a in init.params()][1:] if init is not None else list(self.class_fields(sym))
        elif isinstance(sym, FuncInfo):
            names = [a.arg for a in sym.params()]
            if sym.cls is not None and not sym.is_static and names[:1] in (['self'], ['cls']) and not isinstance(
                    self.resolve_expr_symbol(mod, getattr(call.func, 'value', call.func)), ClassInfo):
                names = names[1:]
        for i, a in enumerate(call.args):
            if isinstance(a, ast.Starred):
                break
            if i < len(names):
                out[names[i]] = a
        for k in call.keywords:
            if k.arg:
                out[k.arg] = k.value
        return out

    def _normalise_ctor_keywords(self):
        """N5  constructor call of a package dataclass (generated __init__): the keyword arguments that continue the
        positional ones in field order become positional -  `CppPorts(ports=x)` -> `CppPorts(x)`.  The rules read the
        leading fields positionally and the rest by keyword, whichever way the source spells them."""
        for mod in self.modules.values():
            for n in ast.walk(mod.tree):
                if not isinstance(n, ast.Call) or not n.keywords or any(k.arg is None for k in n.keywords) or \
                        any(isinstance(a, ast.Starred) for a in n.args):
                    continue
                sym = self.resolve_expr_symbol(mod, n.func)
                if not isinstance(sym, ClassInfo) or not sym.is_dataclass or self.lookup_method(sym, '__init__') is not None:
                    continue
                fields = list(self.class_fields(sym))
                kw = {k.arg: k for k in n.keywords}
                i = len(n.args)
                while i < len(fields) and fields[i] in kw:
                    k = kw.pop(fields[i])
                    n.args.append(k.value)
                    self._parents[id(k.value)] = n
                    n.keywords.remove(k)
                    i += 1

    def _index_class(self, mod: Module, node: ast.ClassDef):
        cls = ClassInfo(node.name, mod, node)
        for dec in node.decorator_list:
            d = dec.func if isinstance(dec, ast.Call) else dec
            if (isinstance(d, ast.Name) and d.id == 'dataclass') or (isinstance(d, ast.Attribute) and d.attr == 'dataclass'):
                cls.is_dataclass = True
                if isinstance(dec, ast.Call):
                    for kw in dec.keywords:
                        if kw.arg == 'frozen' and isinstance(kw.value, ast.Constant) and kw.value.value is True:
                            cls.frozen = True
        for stmt in node.body:
            if isinstance(stmt, ast.AnnAssign) and isinstance(stmt.target, ast.Name):
                cls.fields[stmt.target.id] = (stmt.annotation, stmt.value)
            elif isinstance(stmt, (ast.FunctionDef, ast.AsyncFunctionDef)):
                self._index_function(mod, stmt, cls, None)
        mod.classes[node.name] = cls
        self.classes[cls.fq] = cls

    def _index_function(self, mod: Module, node, cls: Optional[ClassInfo], parent: Optional[FuncInfo]):
        if parent is not None:
            qual = f'{parent.qualname}.{node.name}'
        elif cls is not None:
            qual = f'{cls.name}.{node.name}'
        else:
            qual = node.name
        fi = FuncInfo(node.name, qual, mod, node, cls, parent)
        for dec in node.decorator_list:
            if isinstance(dec, ast.Name) and dec.id == 'property':
                fi.is_property = True
            if isinstance(dec, ast.Name) and dec.id == 'staticmethod':
                fi.is_static = True
            if isinstance(dec, ast.Name) and dec.id == 'classmethod':
                fi.is_classmethod = True
            if isinstance(dec, ast.Attribute) and dec.attr == 'setter':
                fi.is_setter = True
        if fi.is_setter:
            fi.qualname = qual + '.setter'
            if cls is not None:
                cls.setters[node.name] = fi
        elif cls is not None and parent is None:
            cls.methods[node.name] = fi
        elif parent is not None:
            parent.nested[node.name] = fi
        else:
            mod.functions[node.name] = fi
        self.functions[fi.fq] = fi
        for sub in self._direct_nested_defs(node):
            self._index_function(mod, sub, cls, fi)

    @staticmethod
    def _direct_nested_defs(fn) -> List[ast.FunctionDef]:
        out = []
        stack = list(fn.body)
        while stack:
            n = stack.pop(0)
            if isinstance(n, (ast.FunctionDef, ast.AsyncFunctionDef)):
                out.append(n)
                continue
            if isinstance(n, (ast.ClassDef, ast.Lambda)):
                continue
            stack.extend(ast.iter_child_nodes(n))
        return out

    # -- navigation ------------------------------------------------------------------------
    def parent(self, node: ast.AST) -> Optional[ast.AST]:
        return self._parents.get(id(node))

    def enclosing_function(self, node: ast.AST) -> Optional[ast.AST]:
        p = self.parent(node)
        while p is not None and not isinstance(p, (ast.FunctionDef, ast.AsyncFunctionDef)):
            p = self.parent(p)
        return p

    def module(self, short_or_full: str) -> Module:
        name = short_or_full if short_or_full.startswith(PKG) else f'{PKG}.{short_or_full}'
        if name not in self.modules:
            raise AnalysisError(f'module {name} vanished')
        return self.modules[name]

    def func(self, module: str, qualname: str) -> FuncInfo:
        mod = self.module(module)
        fq = f'{mod.name}:{qualname}'
        if fq not in self.functions:
            raise AnalysisError(f'function {fq} vanished')
        return self.functions[fq]

    def try_func(self, module: str, qualname: str) -> Optional[FuncInfo]:
        try:
            return self.func(module, qualname)
        except AnalysisError:
            return None

    def cls(self, module: str, name: str) -> ClassInfo:
        mod = self.module(module)
        if name not in mod.classes:
            raise AnalysisError(f'class {mod.name}.{name} vanished')
        return mod.classes[name]

    def inferred_return_type(self, fi: 'FuncInfo') -> tuple:
        """Return type of an unannotated function: the union of the types of its return expressions."""
        cache = self.__dict__.setdefault('_ret_cache', {})
        if fi.fq in cache:
            return cache[fi.fq]
        cache[fi.fq] = ANY            # recursion guard
        ys = [n for n in iter_own_nodes(fi.node) if isinstance(n, (ast.Yield, ast.YieldFrom))]
        if ys:
            # a generator: calling it hands out an iterator (never None) over what it yields
            env = TypeEnv(self, fi)
            ts = []
            for y in ys:
                if y.value is None:
                    ts.append(NONE)
                elif isinstance(y, ast.Yield):
                    ts.append(env.type_of(y.value))
                else:
                    ts.append(TypeEnv.elem_type(env.type_of(y.value)))
            ts = [t for t in ts if t[0] != 'any'] or [ANY]         # (a recursive `yield from` of itself adds nothing new)
            t = t_list(union(ts))
            cache[fi.fq] = t
            return t
        rets = [n for n in iter_own_nodes(fi.node) if isinstance(n, ast.Return)]
        if not rets or any(r.value is None for r in rets):
            t = ANY if rets else NONE
        else:
            env = TypeEnv(self, fi)
            t = union([env.type_of(r.value) for r in rets])
        cache[fi.fq] = t
        return t

    def all_functions(self) -> List[FuncInfo]:
        return list(self.functions.values())

    def ancestors(self, cls: ClassInfo) -> List[Any]:
        """Linearised ancestors (self first); unresolved bases as strings."""
        out: List[Any] = [cls]
        for b in cls.bases:
            if b in self.classes:
                for a in self.ancestors(self.classes[b]):
                    if a not in out:
                        out.append(a)
            else:
                out.append(b)
        return out

    def is_subclass(self, cls_fq: str, base_fq: str) -> bool:
        if cls_fq == base_fq:
            return True
        c = self.classes.get(cls_fq)
        if not c:
            return False
        return any((a.fq if isinstance(a, ClassInfo) else a) == base_fq for a in self.ancestors(c))

    def lookup_method(self, cls: ClassInfo, name: str) -> Optional[FuncInfo]:
        for a in self.ancestors(cls):
            if isinstance(a, ClassInfo) and name in a.methods:
                return a.methods[name]
        return None

    def lookup_setter(self, cls: ClassInfo, name: str) -> Optional[FuncInfo]:
        for a in self.ancestors(cls):
            if isinstance(a, ClassInfo) and name in a.setters:
                return a.setters[name]
        return None

    def class_fields(self, cls: ClassInfo) -> Dict[str, Tuple[Optional[ast.expr], Optional[ast.expr], ClassInfo]]:
        out: Dict[str, Any] = {}
        for a in reversed(self.ancestors(cls)):
            if isinstance(a, ClassInfo):
                for k, (ann, dflt) in a.fields.items():
                    out[k] = (ann, dflt, a)
        return out

    # -- symbol resolution -------------------------------------------------------------------
    def resolve_name(self, mod: Module, name: str, _depth=0) -> Any:
        """Resolve a module-level name to ClassInfo | FuncInfo | Module | ('const', node, Module) |
        ('ext', 'module.symbol') | None."""
        if _depth > 8:
            return None
        if name in mod.classes:
            return mod.classes[name]
        if name in mod.functions:
            return mod.functions[name]
        if name in mod.assigns:
            val = mod.assigns[name]
            if isinstance(val, ast.Name):           # alias such as TB = TextBlock
                r = self.resolve_name(mod, val.id, _depth + 1)
                if r is not None:
                    return r
            return ('const', val, mod)
        if name in mod.imports:
            target, sym = mod.imports[name]
            if sym is None:
                if target in self.modules:
                    return self.modules[target]
                return ('ext', target)
            if target in self.modules:
                return self.resolve_name(self.modules[target], sym, _depth + 1) or ('ext', f'{target}.{sym}')
            return ('ext', f'{target}.{sym}')
        return None

    def resolve_expr_symbol(self, mod: Module, expr: ast.expr) -> Any:
        """Resolve Name / dotted Attribute (module.symbol) statically."""
        if isinstance(expr, ast.Name):
            return self.resolve_name(mod, expr.id)
        if isinstance(expr, ast.Attribute):
            base = self.resolve_expr_symbol(mod, expr.value)
            if isinstance(base, Module):
                return self.resolve_name(base, expr.attr)
            if isinstance(base, tuple) and base[0] == 'ext':
                return ('ext', f'{base[1]}.{expr.attr}')
            if isinstance(base, ClassInfo):
                if base.is_enum and expr.attr in base.enum_members:
                    return ('enum_member', base, expr.attr)
                m = self.lookup_method(base, expr.attr)
                if m:
                    return m
        return None

    # -- types ---------------------------------------------------------------------------------
    def ann_to_type(self, mod: Module, ann: Optional[ast.expr], self_cls: Optional[ClassInfo] = None) -> tuple:
        if ann is None:
            return ANY
        if isinstance(ann, ast.Constant):
            if ann.value is None:
                return NONE
            if isinstance(ann.value, str):
                try:
                    return self.ann_to_type(mod, ast.parse(ann.value, mode='eval').body, self_cls)
                except SyntaxError:
                    return ANY
            return ANY
        if isinstance(ann, ast.BoolOp) and isinstance(ann.op, ast.Or):   # "ast.System or ast.Component"
            return union(self.ann_to_type(mod, v, self_cls) for v in ann.values)
        if isinstance(ann, ast.BinOp) and isinstance(ann.op, ast.BitOr):
            return union([self.ann_to_type(mod, ann.left, self_cls), self.ann_to_type(mod, ann.right, self_cls)])
        if isinstance(ann, ast.Subscript):
            head = ann.value
            hname = head.attr if isinstance(head, ast.Attribute) else getattr(head, 'id', '')
            args = ann.slice.elts if isinstance(ann.slice, ast.Tuple) else [ann.slice]
            if hname in ('List', 'list', 'Sequence', 'Iterable', 'Iterator', 'Generator', 'Collection', 'MutableSequence', 'Reversible'):
                return t_list(self.ann_to_type(mod, args[0], self_cls))      # (what iterating it yields)
            if hname in ('Set', 'set', 'FrozenSet', 'frozenset'):
                return t_set(self.ann_to_type(mod, args[0], self_cls))
            if hname in ('Dict', 'dict'):
                return ('dict', self.ann_to_type(mod, args[0], self_cls),
                        self.ann_to_type(mod, args[1], self_cls) if len(args) > 1 else ANY)
            if hname == 'Optional':
                return t_opt(self.ann_to_type(mod, args[0], self_cls))
            if hname == 'Union':
                return union(self.ann_to_type(mod, a, self_cls) for a in args)
            if hname in ('Tuple', 'tuple'):
                return ('tuple', tuple(self.ann_to_type(mod, a, self_cls) for a in args))
            if hname in ('Type', 'type') and len(args) == 1:
                inner = self.ann_to_type(mod, args[0], self_cls)
                if inner[0] == 'cls':
                    return ('type', inner[1])       # the class object itself (or one of its subclasses)
            return ANY
        if isinstance(ann, (ast.Name, ast.Attribute)):
            nm = ann.id if isinstance(ann, ast.Name) else ann.attr
            if nm == 'Self' and self_cls is not None:
                return t_cls(self_cls.fq)
            prim = {'str': STR, 'int': INT, 'bool': BOOL, 'float': ('float',), 'Any': ANY, 'list': t_list(ANY),
                    'dict': ('dict', ANY, ANY), 'set': t_set(ANY), 'object': ANY, 'bytes': ('bytes',)}
            if isinstance(ann, ast.Name) and nm in prim and self.resolve_name(mod, nm) is None:
                return prim[nm]
            sym = self.resolve_expr_symbol(mod, ann)
            if isinstance(sym, ClassInfo):
                return t_cls(sym.fq)
            if isinstance(sym, tuple) and sym[0] == 'ext' and sym[1] in EXT_OBJECT_FACTORIES:
                return ('extobj', sym[1])        # annotated with a library class (deque, Pattern ...)
            return ANY
        return ANY

    def field_type(self, cls: ClassInfo, attr: str) -> Optional[tuple]:
        """Type of attribute `attr` on instances of cls: dataclass field, property or method."""
        fields = self.class_fields(cls)
        if attr in fields:
            ann, dflt, owner = fields[attr]
            t = self.ann_to_type(owner.module, ann, owner)
            if _default_is_none(dflt) and t != ANY:
                t = t_opt(t)        # "x: T = None" is Optional[T] whatever the annotation says
            return t
        m = self.lookup_method(cls, attr)
        if m is not None:
            if m.is_property:
                return self.ann_to_type(m.module, m.node.returns, m.cls)
            return ('func', m)
        # attributes assigned in __init__ with class-level annotation "_x: T" are in fields already;
        # otherwise look at self.<attr> = <ctor call> in __init__
        init = self.lookup_method(cls, '__init__')
        if init is not None:
            for n in ast.walk(init.node):
                if isinstance(n, ast.Assign):
                    for t in n.targets:
                        if isinstance(t, ast.Attribute) and isinstance(t.value, ast.Name) and t.value.id == 'self' \
                                and t.attr == attr:
                            return TypeEnv(self, init).type_of(n.value)
        return None


def _default_is_none(dflt) -> bool:
    if dflt is None:
        return False
    if isinstance(dflt, ast.Constant) and dflt.value is None:
        return True
    if isinstance(dflt, ast.Call) and getattr(dflt.func, 'id', getattr(dflt.func, 'attr', '')) == 'field':
        return any(k.arg == 'default' and isinstance(k.value, ast.Constant) and k.value.value is None
                   for k in dflt.keywords)
    return False


class TypeEnv:
    """Flow-insensitive local type environment of one function (incl. enclosing functions' locals)."""

    def __init__(self, prog: Program, fn: FuncInfo):
        self.prog = prog
        self.fn = fn
        self.mod = fn.module
        self.vars: Dict[str, tuple] = {}
        self._building: Set[str] = set()
        self._assign_sites: Dict[str, List[Tuple[str, ast.AST]]] = {}
        chain = []
        f: Optional[FuncInfo] = fn
        while f is not None:
            chain.append(f)
            f = f.parent
        for f in reversed(chain):
            self._collect(f)

    def _collect(self, f: FuncInfo):
        args = f.node.args
        params = f.params()
        for i, a in enumerate(params):
            if i == 0 and f.cls is not None and not f.is_static and f.parent is None and a.arg in ('self', 'cls'):
                # in a classmethod `cls` is the class itself: `cls(...)` constructs an instance
                self.vars[a.arg] = ('type', f.cls.fq) if f.is_classmethod else t_cls(f.cls.fq)
                continue
            self.vars[a.arg] = self.prog.ann_to_type(f.module, a.annotation, f.cls)
        pos = list(args.posonlyargs) + list(args.args)
        for p_, d in list(zip(pos[len(pos) - len(args.defaults):], args.defaults)) + \
                [(p_, d) for p_, d in zip(args.kwonlyargs, args.kw_defaults) if d is not None]:
            if _default_is_none(d) and self.vars.get(p_.arg, ANY) != ANY:
                self.vars[p_.arg] = t_opt(self.vars[p_.arg])
        if args.vararg:
            self.vars[args.vararg.arg] = ('tuple', ())
        if args.kwarg:
            self.vars[args.kwarg.arg] = ('dict', STR, ANY)
        own_nested = {id(n.node) for n in f.nested.values()}

        def walk(node):
            for child in ast.iter_child_nodes(node):
                if id(child) in own_nested or isinstance(child, (ast.ClassDef,)):
                    continue
                visit(child)
                walk(child)

        def visit(n):
            if isinstance(n, ast.Assign):
                for t in n.targets:
                    self._bind_target(t, ('expr', n.value))
            elif isinstance(n, ast.AnnAssign) and isinstance(n.target, ast.Name):
                self._assign_sites.setdefault(n.target.id, []).append(('ann', n.annotation, n.value))
            elif isinstance(n, ast.AugAssign) and isinstance(n.target, ast.Name):
                pass
            elif isinstance(n, (ast.For, ast.AsyncFor)):
                self._bind_target(n.target, ('elem', n.iter))
            elif isinstance(n, ast.comprehension):
                self._bind_target(n.target, ('elem', n.iter))
            elif isinstance(n, ast.With):
                for item in n.items:
                    if item.optional_vars is not None:
                        self._bind_target(item.optional_vars, ('expr', item.context_expr))
            elif isinstance(n, ast.ExceptHandler) and n.name:
                self._assign_sites.setdefault(n.name, []).append(('exc', n.type))
            elif isinstance(n, ast.NamedExpr):
                self._bind_target(n.target, ('expr', n.value))
            elif isinstance(n, ast.Lambda):
                la = n.args
                # `xs.sort(key=lambda x: ...)`, `sorted / min / max(xs, key=lambda x: ...)`, `filter / map(lambda x: ..., xs)`:
                # the single parameter ranges over the elements of xs
                src = None
                par_ = self.prog.parent(n)
                call_ = self.prog.parent(par_) if isinstance(par_, ast.keyword) else par_
                if isinstance(call_, ast.Call) and len(la.posonlyargs) + len(la.args) == 1 and not la.kwonlyargs and \
                        not la.vararg and not la.kwarg:
                    if isinstance(par_, ast.keyword) and par_.arg == 'key':
                        if isinstance(call_.func, ast.Attribute) and call_.func.attr == 'sort':
                            src = call_.func.value
                        elif isinstance(call_.func, ast.Name) and call_.func.id in ('sorted', 'min', 'max') and len(call_.args) == 1:
                            src = call_.args[0]
                    elif isinstance(call_.func, ast.Name) and call_.func.id in ('filter', 'map') and len(call_.args) == 2 and \
                            call_.args[0] is n:
                        src = call_.args[1]
                for a_ in list(la.posonlyargs) + list(la.args) + list(la.kwonlyargs) + \
                        [x for x in (la.vararg, la.kwarg) if x is not None]:
                    self._assign_sites.setdefault(a_.arg, []).append(('elem', src) if src is not None else ('lambda', n))

        walk(f.node)

    def _bind_target(self, tgt, how):
        if isinstance(tgt, ast.Name):
            self._assign_sites.setdefault(tgt.id, []).append(how)
        elif isinstance(tgt, ast.Starred):
            # `first, *rest = xs`: rest is a list of elements of xs
            self._bind_target(tgt.value, ('rest', how))
        elif isinstance(tgt, (ast.Tuple, ast.List)):
            starred = any(isinstance(e, ast.Starred) for e in tgt.elts)
            for i, e in enumerate(tgt.elts):
                if isinstance(e, ast.Starred):
                    self._bind_target(e.value, ('rest', how))
                elif starred:
                    self._bind_target(e, ('elem', how[1]) if how[0] == 'expr' else ('item', how, i))
                else:
                    self._bind_target(e, ('item', how, i))

    def var_type(self, name: str) -> tuple:
        if name in self.vars and name not in self._assign_sites:
            return self.vars[name]
        if name in self._building:
            return BOTTOM
        if name in self._assign_sites:
            self._building.add(name)
            try:
                sites = self._assign_sites[name]
                if any(s[0] == 'ann' for s in sites):
                    sites = [s for s in sites if s[0] == 'ann']      # a declared local type wins
                ts = [self._site_type(s) for s in sites]
                if name in self.vars and self.vars[name] != ANY:
                    ts.append(self.vars[name])
                t = union(ts)
            finally:
                self._building.discard(name)
            return t
        return ANY

    def _site_type(self, site) -> tuple:
        kind = site[0]
        if kind == 'rest':
            inner = site[1]
            t = strip_opt(self.type_of(inner[1])) if inner[0] == 'expr' else ANY
            return t if t[0] == 'list' else t_list(ANY)
        if kind == 'expr':
            return self.type_of(site[1])
        if kind == 'ann':
            return self.prog.ann_to_type(self.mod, site[1], self.fn.cls)
        if kind == 'elem':
            return self.elem_type(self.type_of(site[1]))
        if kind == 'item':
            base = self._site_type(site[1])
            if base[0] == 'tuple' and len(base[1]) > site[2]:
                return base[1][site[2]]
            return ANY
        if kind == 'exc':
            sym = self.prog.resolve_expr_symbol(self.mod, site[1]) if site[1] is not None else None
            return t_cls(sym.fq) if isinstance(sym, ClassInfo) else ANY
        return ANY

    @staticmethod
    def elem_type(t: tuple) -> tuple:
        t = strip_opt(t)
        if t[0] in ('list', 'set'):
            return t[1]
        if t[0] == 'dict':
            return t[1]
        if t[0] == 'str':
            return STR
        if t[0] == 'tuple' and t[1]:
            return union(t[1])
        return ANY

    def type_of(self, e: ast.expr) -> tuple:
        prog = self.prog
        if isinstance(e, ast.Constant):
            v = e.value
            if v is None:
                return NONE
            if isinstance(v, bool):
                return BOOL
            if isinstance(v, str):
                return STR
            if isinstance(v, int):
                return INT
            return ANY
        if isinstance(e, ast.JoinedStr):
            return STR
        if isinstance(e, ast.Name):
            if e.id in self.vars or e.id in self._assign_sites:
                return self.var_type(e.id)
            sym = prog.resolve_name(self.mod, e.id)
            if isinstance(sym, ClassInfo):
                return ('type', sym.fq)
            if isinstance(sym, FuncInfo):
                return ('func', sym)
            if isinstance(sym, Module):
                return ('module', sym.name)
            if isinstance(sym, tuple) and sym[0] == 'const':
                if isinstance(sym[1], ast.Call) and len(sym) > 2:
                    fs = prog.resolve_expr_symbol(sym[2], sym[1].func)
                    if isinstance(fs, tuple) and fs[0] == 'ext' and fs[1] in EXT_OBJECT_FACTORIES:
                        return ('extobj', fs[1])
                return TypeEnv._const_type(sym[1])
            return ANY
        if isinstance(e, ast.Attribute):
            sym = prog.resolve_expr_symbol(self.mod, e)
            if isinstance(sym, ClassInfo):
                return ('type', sym.fq)
            if isinstance(sym, FuncInfo) and not isinstance(prog.resolve_expr_symbol(self.mod, e.value), ClassInfo):
                return ('func', sym)
            if isinstance(sym, tuple) and sym[0] == 'enum_member':
                return t_cls(sym[1].fq)
            if isinstance(sym, tuple) and sym[0] == 'const':
                return TypeEnv._const_type(sym[1])
            bt = strip_opt(self.type_of(e.value))
            return self._attr_type(bt, e.attr)
        if isinstance(e, ast.Call):
            if isinstance(e.func, ast.Name) and e.func.id == 'getattr' and len(e.args) >= 2 and 'getattr' not in self._assign_sites:
                # getattr(obj, <name taken from a constant table of the package>): one of the fields so named
                bt = strip_opt(self.type_of(e.args[0]))
                cls = prog.classes.get(bt[1]) if bt[0] == 'cls' else None
                if cls is not None:
                    names = []
                    if isinstance(e.args[1], ast.Constant) and isinstance(e.args[1].value, str):
                        names = [e.args[1].value]
                    else:
                        for node, _m in self._table_consts(e.args[1]):
                            names.extend(c.value for c in ast.walk(node) if isinstance(c, ast.Constant) and isinstance(c.value, str))
                    ts = [prog.field_type(cls, nm) for nm in names]
                    ts = [t for t in ts if t is not None]
                    if ts:
                        return union(ts)
            return self._call_type(e)
        if isinstance(e, (ast.List, ast.ListComp)):
            if isinstance(e, ast.List):
                # `[*xs, y]`: the elements of xs, not xs itself
                return t_list(union((self.elem_type(self.type_of(x.value)) if isinstance(x, ast.Starred) else self.type_of(x))
                                    for x in e.elts) if e.elts else ANY)
            return t_list(self._filtered_elt_type(e))
        if isinstance(e, (ast.Set, ast.SetComp)):
            if isinstance(e, ast.Set):
                return t_set(union(self.type_of(x) for x in e.elts))
            return t_set(self.type_of(e.elt))
        if isinstance(e, (ast.Dict, ast.DictComp)):
            return ('dict', ANY, ANY)
        if isinstance(e, ast.GeneratorExp):
            return t_list(self._filtered_elt_type(e))
        if isinstance(e, ast.Tuple):
            return ('tuple', tuple(self.type_of(x) for x in e.elts))
        if isinstance(e, ast.IfExp):
            return union([self.type_of(e.body), self.type_of(e.orelse)])
        if isinstance(e, ast.BoolOp):
            return union(self.type_of(v) for v in e.values)
        if isinstance(e, ast.Compare):
            return BOOL
        if isinstance(e, ast.UnaryOp):
            return BOOL if isinstance(e.op, ast.Not) else self.type_of(e.operand)
        if isinstance(e, ast.BinOp):
            lt, rt = strip_opt(self.type_of(e.left)), strip_opt(self.type_of(e.right))
            if isinstance(e.op, ast.Add):
                if lt[0] == 'cls':
                    c = prog.classes.get(lt[1])
                    m = prog.lookup_method(c, '__add__') if c else None
                    if m:
                        return prog.ann_to_type(m.module, m.node.returns, m.cls)
                if lt[0] in ('str', 'list'):
                    return lt
                if rt[0] in ('str', 'list'):
                    return rt
            if isinstance(e.op, ast.Mult) and (lt[0] == 'str' or rt[0] == 'str'):
                return STR
            if isinstance(e.op, ast.Mod) and lt[0] == 'str':
                return STR
            if isinstance(e.op, (ast.BitOr, ast.BitAnd, ast.Sub, ast.BitXor)) and lt[0] == 'set':
                return lt
            if lt[0] == 'int' and rt[0] == 'int':
                return INT
            return ANY
        if isinstance(e, ast.Subscript):
            bt = strip_opt(self.type_of(e.value))
            if isinstance(e.slice, ast.Slice):
                return bt
            if bt[0] == 'list':
                return bt[1]
            if bt[0] == 'dict':
                return bt[2]
            if bt[0] == 'str':
                return STR
            if bt[0] == 'tuple' and isinstance(e.slice, ast.Constant) and isinstance(e.slice.value, int) \
                    and -len(bt[1]) <= e.slice.value < len(bt[1]):
                return bt[1][e.slice.value]
            return ANY
        if isinstance(e, ast.Lambda):
            return ANY
        if isinstance(e, ast.NamedExpr):
            return self.type_of(e.value)
        if isinstance(e, ast.Starred):
            return self.type_of(e.value)
        return ANY

    @staticmethod
    def _const_type(node: ast.expr) -> tuple:
        if isinstance(node, ast.Constant):
            if isinstance(node.value, str):
                return STR
            if isinstance(node.value, bool):
                return BOOL
            if isinstance(node.value, int):
                return INT
        if isinstance(node, ast.JoinedStr):
            return STR
        return ANY

    def _attr_type(self, bt: tuple, attr: str) -> tuple:
        prog = self.prog
        if attr in ('__name__', '__qualname__', '__module__') and bt[0] in ('any', 'type', 'func'):
            return STR          # of a class / function object (what such an attribute is read from)
        if bt[0] == 'union':
            return union(self._attr_type(strip_opt(t), attr) for t in bt[1])
        if bt[0] == 'cls':
            c = prog.classes.get(bt[1])
            if c is None:
                return ANY
            if c.is_enum and attr == 'value':
                vals = [TypeEnv._const_type(v) for v in c.enum_members.values()]
                return union(vals) if vals else ANY
            if c.is_enum and attr == 'name':
                return STR
            t = prog.field_type(c, attr)
            return t if t is not None else ANY
        if bt[0] == 'type':
            c = prog.classes.get(bt[1])
            if c is not None:
                if c.is_enum and attr in c.enum_members:
                    return t_cls(c.fq)
                m = prog.lookup_method(c, attr)
                if m:
                    return ('func', m)
            return ANY
        if bt[0] == 'str':
            return ('strmethod', attr)
        if bt[0] in ('list', 'set', 'dict'):
            return ('collmethod', bt, attr)
        return ANY

    def _call_type(self, e: ast.Call) -> tuple:
        prog = self.prog
        f = e.func
        if isinstance(f, ast.Name):
            builtin = {'str': STR, 'len': INT, 'int': INT, 'bool': BOOL, 'repr': STR, 'isinstance': BOOL,
                       'any': BOOL, 'all': BOOL, 'hasattr': BOOL, 'id': INT, 'hash': INT}
            if f.id in builtin and prog.resolve_name(self.mod, f.id) is None and f.id not in self.vars \
                    and f.id not in self._assign_sites:
                return builtin[f.id]
            if f.id in ('list', 'sorted', 'reversed') and prog.resolve_name(self.mod, f.id) is None:
                return t_list(self.elem_type(self.type_of(e.args[0])) if e.args else ANY)
            if f.id in ('set', 'frozenset') and prog.resolve_name(self.mod, f.id) is None:
                return t_set(self.elem_type(self.type_of(e.args[0])) if e.args else ANY)
            if f.id == 'dict' and prog.resolve_name(self.mod, f.id) is None:
                return ('dict', ANY, ANY)
            if f.id == 'filter' and len(e.args) == 2 and prog.resolve_name(self.mod, f.id) is None:
                return t_list(self.elem_type(self.type_of(e.args[1])))
            if f.id == 'deepcopy' or f.id == 'copy':
                return self.type_of(e.args[0]) if e.args else ANY
            if f.id == 'next' and e.args and prog.resolve_name(self.mod, 'next') is None and 'next' not in self.vars:
                # next(<iterable>[, default]): an element of it (or the default)
                et = self.elem_type(self.type_of(e.args[0]))
                if len(e.args) > 1:
                    dt = self.type_of(e.args[1])
                    return t_opt(et) if dt == NONE else union([et, dt])
                return et
        fsym = prog.resolve_expr_symbol(self.mod, f) if isinstance(f, (ast.Name, ast.Attribute)) else None
        if isinstance(fsym, tuple) and fsym[0] == 'ext' and fsym[1] in EXT_OBJECT_FACTORIES:
            return ('extobj', fsym[1])
        if isinstance(f, ast.Attribute) and f.attr == 'fromkeys' and isinstance(f.value, ast.Name) and f.value.id == 'dict' and \
                prog.resolve_name(self.mod, 'dict') is None and 'dict' not in self.vars and e.args:
            return ('dict', self.elem_type(self.type_of(e.args[0])), self.type_of(e.args[1]) if len(e.args) > 1 else NONE)
        if isinstance(f, ast.Attribute) and f.attr == '_replace':
            rt = strip_opt(self.type_of(f.value))
            if rt[0] == 'cls' and rt[1] in prog.classes and any(str(b).split('.')[-1] == 'NamedTuple' for b in prog.classes[rt[1]].bases):
                return rt       # a copy of the same record type
        ft = self.type_of(f)
        if ft[0] == 'type':
            return t_cls(ft[1])
        if ft[0] == 'func':
            fi: FuncInfo = ft[1]
            if isinstance(f, ast.Attribute) and fi.cls is not None and not fi.is_static:
                # a fluent method (`-> Self`, or every return hands back `self`) called on a receiver of a subclass yields that subclass
                r_ann = fi.node.returns
                fluent = (isinstance(r_ann, (ast.Name, ast.Attribute)) and getattr(r_ann, 'id', getattr(r_ann, 'attr', '')) == 'Self') or (
                    isinstance(r_ann, ast.Constant) and r_ann.value == 'Self')
                if not fluent and r_ann is None:
                    rets = [x for x in iter_own_nodes(fi.node) if isinstance(x, ast.Return)]
                    fluent = bool(rets) and all(isinstance(x.value, ast.Name) and x.value.id == 'self' for x in rets)
                if fluent:
                    rt_ = strip_opt(self.type_of(f.value))
                    if rt_[0] == 'cls' and rt_[1] in prog.classes and prog.is_subclass(rt_[1], fi.cls.fq):
                        return rt_
            if fi.node.returns is None:
                return prog.inferred_return_type(fi)
            at = prog.ann_to_type(fi.module, fi.node.returns, fi.cls)
            if at[0] == 'list' and at[1][0] == 'any' and any(isinstance(y_, (ast.Yield, ast.YieldFrom)) for y_ in iter_own_nodes(fi.node)):
                it = prog.inferred_return_type(fi)          # `-> Iterator[<alias>]`: what the generator yields says more
                if it[0] == 'list' and it[1][0] != 'any':
                    return it
            if strip_opt(at)[0] == 'any' and not fi.is_property and fi.node.body and \
                    not any(isinstance(y_, (ast.Yield, ast.YieldFrom)) for y_ in iter_own_nodes(fi.node)) and \
                    not any(isinstance(d_, ast.Name) and d_.id == 'abstractmethod' or isinstance(d_, ast.Attribute) and d_.attr == 'abstractmethod'
                            for d_ in fi.node.decorator_list):
                # `-> Any` / `-> Optional[Any]` says nothing: what the return statements hand back says more
                it = prog.inferred_return_type(fi)
                if it[0] != 'any':
                    return it
            return at
        if ft[0] == 'strmethod':
            m = ft[1]
            if m in ('join', 'upper', 'lower', 'strip', 'rstrip', 'lstrip', 'format', 'replace', 'title',
                     'capitalize', 'ljust', 'rjust', 'center', 'zfill', 'removeprefix', 'removesuffix'):
                return STR
            if m in ('split', 'splitlines', 'rsplit'):
                return t_list(STR)
            if m in ('startswith', 'endswith', 'isdigit', 'isalpha', 'isidentifier'):
                return BOOL
            if m == 'encode':
                return ('bytes',)
            return ANY
        if ft[0] == 'collmethod':
            _, ct, m = ft
            if m in ('pop',):
                return ct[1] if ct[0] in ('list', 'set') else ct[2]
            if m in ('copy', 'union', 'intersection', 'difference'):
                return ct
            if m in ('get',):
                if ct[0] == 'dict' and len(e.args) == 2:
                    dt = self.type_of(e.args[1])          # with a default: a value or that default, no None of its own
                    return dt if ct[2][0] == 'any' and dt[0] in ('list', 'set', 'dict', 'str', 'tuple') else union([ct[2], dt])
                return t_opt(ct[2]) if ct[0] == 'dict' else ANY
            if m in ('values',):
                return t_list(ct[2]) if ct[0] == 'dict' else ANY
            if m in ('keys',):
                return t_list(ct[1]) if ct[0] == 'dict' else ANY
            if m in ('items',):
                return t_list(('tuple', (ct[1], ct[2]))) if ct[0] == 'dict' else ANY
            return NONE if m in ('append', 'extend', 'add', 'update', 'clear', 'sort', 'insert', 'remove') else ANY
        return ANY

    def _filtered_elt_type(self, e) -> tuple:
        """Element type of a comprehension: an Optional element that the comprehension's own filter tests (`if <elt>` /
        `if <elt> is not None`) is not None in the result."""
        t = self.type_of(e.elt)
        if t[0] == 'opt':
            dump = ast.dump(e.elt)
            for g in e.generators:
                for c in g.ifs:
                    if ast.dump(c) == dump or (isinstance(c, ast.Compare) and len(c.ops) == 1 and isinstance(c.ops[0], (ast.IsNot, ast.NotEq)) and
                                               ast.dump(c.left) == dump and isinstance(c.comparators[0], ast.Constant) and
                                               c.comparators[0].value is None):
                        return strip_opt(t)
        return t

    # -- call resolution -------------------------------------------------------------------
    def resolve_call(self, e: ast.Call) -> List[Any]:
        """Callees of a call expression: list of FuncInfo (package functions/methods; constructor ->
        __init__/__post_init__) plus ('ext', name) / ('builtin', name) markers.  A callee that is taken out of a constant
        dispatch table of the package (`TABLE[key](...)`, `parser, kind = TABLE[key]; parser(...)`,
        `getattr(self, NAMES[key])(...)`, `route.parse(...)`) resolves to every function the table holds."""
        out = self._resolve_call_direct(e)
        if out and all(isinstance(c, tuple) and c[0] == 'unknown' for c in out):
            via = self._table_callees(e)
            if via:
                return via
            via = self._local_lambda_callees(e)
            if via:
                return via
            if isinstance(e.func, ast.Name) and e.func.id in [a.arg for a in self.fn.params()] and \
                    e.func.id not in self._assign_sites:
                via = self._param_callees(e.func.id)
                if via:
                    return via
        return out

    def single_def(self, name: str) -> Optional[ast.AST]:
        """The one expression a local is ever bound to (`x = E` or `x: T = E`, nothing else binds x), else None."""
        sites = self._assign_sites.get(name, [])
        if len(sites) != 1 or name in [a.arg for a in self.fn.params()]:
            return None
        if sites[0][0] == 'expr':
            return sites[0][1]
        if sites[0][0] == 'ann' and len(sites[0]) > 2 and sites[0][2] is not None:
            return sites[0][2]
        return None

    def _local_lambda_callees(self, e: ast.Call) -> List[Any]:
        """`f(x)` / `table[key](x)` / `table.get(key)(x)` where f / every value of `table` is a lambda (or a function of the
        package) written in THIS function (single-definition local): ('lambda', node) markers - the body of a lambda belongs
        to the function it is written in and is analysed there - plus the named functions."""
        single_def = self.single_def
        f = e.func
        vals: Optional[List[ast.expr]] = None
        if isinstance(f, ast.Name):
            d = single_def(f.id)
            if isinstance(d, ast.Lambda):
                vals = [d]
            elif isinstance(d, (ast.Subscript, ast.Call)):
                f = d            # `builder = TABLE[key]; builder(...)`: the callee is an entry of the table
        else:
            tbl = f.value if isinstance(f, ast.Subscript) else \
                f.func.value if isinstance(f, ast.Call) and isinstance(f.func, ast.Attribute) and f.func.attr == 'get' else None
            class_scope: Optional[ClassInfo] = None
            if isinstance(tbl, ast.Attribute) and isinstance(tbl.value, ast.Name) and tbl.value.id in ('self', 'cls') and \
                    self.fn.cls is not None:
                # a class-level table: `self._BUILDERS[key](self, ...)`
                for c_ in [self.fn.cls] + [a_ for a_ in self.prog.ancestors(self.fn.cls) if isinstance(a_, ClassInfo) and a_ is not self.fn.cls]:
                    for st_ in c_.node.body:
                        tg_ = st_.targets[0] if isinstance(st_, ast.Assign) and len(st_.targets) == 1 else \
                            st_.target if isinstance(st_, ast.AnnAssign) and st_.value is not None else None
                        if isinstance(tg_, ast.Name) and tg_.id == tbl.attr and isinstance(st_.value, ast.Dict) and st_.value.values \
                                and all(k is not None for k in st_.value.keys) and vals is None:
                            vals = list(st_.value.values)
                            class_scope = c_
                if vals is not None and isinstance(f, ast.Call) and len(f.args) > 1:
                    vals.append(f.args[1])
                if vals is not None:
                    out_: List[Any] = []
                    for v in vals:
                        m_ = class_scope.methods.get(v.id) if isinstance(v, ast.Name) and class_scope is not None else None
                        if m_ is not None:
                            out_.append(m_)
                        elif isinstance(v, ast.Lambda):
                            out_.append(('lambda', v))
                        else:
                            s_ = self.prog.resolve_expr_symbol(class_scope.module, v) if isinstance(v, (ast.Name, ast.Attribute)) else None
                            if isinstance(s_, FuncInfo):
                                out_.append(s_)
                            else:
                                return []
                    return out_
            if isinstance(tbl, ast.Dict) and tbl.values and all(k is not None for k in tbl.keys):
                vals = list(tbl.values)         # the table is written where it is used
                if isinstance(f, ast.Call) and len(f.args) > 1:
                    vals.append(f.args[1])
            elif isinstance(tbl, ast.Name):
                d = single_def(tbl.id)
                if isinstance(d, ast.Dict) and d.values and all(k is not None for k in d.keys):
                    # the table must not be changed after it was written
                    stores = [x for x in iter_own_nodes(self.fn.node) if isinstance(x, ast.Subscript) and
                              isinstance(x.ctx, (ast.Store, ast.Del)) and isinstance(x.value, ast.Name) and x.value.id == tbl.id]
                    calls = [x for x in iter_own_nodes(self.fn.node) if isinstance(x, ast.Attribute) and isinstance(x.value, ast.Name)
                             and x.value.id == tbl.id and x.attr in ('update', 'setdefault', 'pop', 'clear', 'popitem')]
                    if not stores and not calls:
                        vals = list(d.values)
                        if isinstance(f, ast.Call) and len(f.args) > 1:
                            vals.append(f.args[1])
        if not vals:
            return []
        out: List[Any] = []
        for v in vals:
            if isinstance(v, ast.Lambda):
                out.append(('lambda', v))
            elif isinstance(v, (ast.Name, ast.Attribute)):
                sym = self.prog.resolve_expr_symbol(self.mod, v)
                if sym is None and isinstance(v, ast.Name):
                    fn_: Optional[FuncInfo] = self.fn
                    while fn_ is not None and sym is None:
                        sym = fn_.nested.get(v.id)       # a local helper function
                        fn_ = fn_.parent
                if isinstance(sym, FuncInfo):
                    out.append(sym)
                elif isinstance(sym, ClassInfo):
                    out.extend(self._ctor_callees(sym))
                else:
                    return []
            else:
                return []
        return out

    def _param_callees(self, pname: str) -> List[Any]:
        """A parameter that is called (`item_parser(item)`): the functions of the package that the call sites of this
        function pass for it.  None when some call site passes something that is not a plain function reference."""
        prog = self.prog
        fn = self.fn
        key = ('param-callees', fn.fq, pname)
        cache = prog.__dict__.setdefault('_param_callee_cache', {})
        if key in cache:
            return cache[key]
        cache[key] = []          # recursion guard
        out: List[Any] = []
        names = [a.arg for a in fn.params()]
        bound = fn.cls is not None and not fn.is_static and names[:1] in (['self'], ['cls'])
        ok = True
        n_sites = 0
        for mod in prog.modules.values():
            for call in [n for n in ast.walk(mod.tree) if isinstance(n, ast.Call)]:
                f = call.func
                nm = f.id if isinstance(f, ast.Name) else f.attr if isinstance(f, ast.Attribute) else None
                if nm != fn.name:
                    continue
                if isinstance(f, ast.Name) and prog.resolve_name(mod, nm) is not fn and fn.cls is None:
                    continue
                n_sites += 1
                params = names[1:] if bound and isinstance(f, ast.Attribute) else names
                arg = None
                for i, a in enumerate(call.args):
                    if isinstance(a, ast.Starred):
                        break
                    if i < len(params) and params[i] == pname:
                        arg = a
                for k in call.keywords:
                    if k.arg == pname:
                        arg = k.value
                if arg is None:
                    continue        # default value
                sym = prog.resolve_expr_symbol(mod, arg) if isinstance(arg, (ast.Name, ast.Attribute)) else None
                if sym is None and isinstance(arg, ast.Attribute) and isinstance(arg.value, ast.Name) and arg.value.id in ('self', 'cls'):
                    encl = prog.enclosing_function(arg)
                    for fi in prog.functions.values():
                        if fi.node is encl and fi.cls is not None:
                            sym = prog.lookup_method(fi.cls, arg.attr)
                if sym is None and isinstance(arg, ast.Name):
                    # a function defined inside the calling function (or one that encloses it)
                    encl_ = prog.enclosing_function(arg)
                    fi_ = next((x for x in prog.functions.values() if x.node is encl_), None)
                    while fi_ is not None and sym is None:
                        if arg.id in fi_.nested:
                            sym = fi_.nested[arg.id]
                        fi_ = fi_.parent
                if isinstance(sym, FuncInfo):
                    if sym not in out:
                        out.append(sym)
                elif isinstance(sym, ClassInfo):
                    for c_ in self._ctor_callees(sym):
                        if not any(c_ is o_ or c_ == o_ for o_ in out):
                            out.append(c_)
                elif isinstance(arg, ast.Name):
                    # handed on from the caller's own parameter: follow one more level
                    encl = prog.enclosing_function(arg)
                    fi = next((x for x in prog.functions.values() if x.node is encl), None)
                    if fi is fn and arg.id == pname:
                        continue        # handed on to itself (recursion): nothing new
                    if fi is not None and arg.id in [a_.arg for a_ in fi.params()] and fi is not fn:
                        more = TypeEnv(prog, fi)._param_callees(arg.id)
                        for m_ in more:
                            if m_ not in out:
                                out.append(m_)
                    else:
                        ok = False
                elif isinstance(arg, (ast.Call, ast.Constant, ast.JoinedStr, ast.List, ast.Tuple, ast.Dict)) and \
                        self._calls_of_param_guarded(pname) and not self._callable_value(mod, arg):
                    continue        # a value that is no function, and the call is under `callable(<param>)`: not called
                else:
                    ok = False
        # the default of the parameter is called where a call site leaves it out
        a_ = fn.node.args
        pos_ = list(a_.posonlyargs) + list(a_.args)
        dflts_ = dict(zip([p_.arg for p_ in pos_][len(pos_) - len(a_.defaults):], a_.defaults))
        dflts_.update({p_.arg: d_ for p_, d_ in zip(a_.kwonlyargs, a_.kw_defaults) if d_ is not None})
        d_ = dflts_.get(pname)
        if d_ is not None and not (isinstance(d_, ast.Constant) and d_.value is None):
            dsym = prog.resolve_expr_symbol(fn.module, d_) if isinstance(d_, (ast.Name, ast.Attribute)) else None
            if isinstance(dsym, FuncInfo):
                if dsym not in out:
                    out.append(dsym)
            else:
                ok = False
        res = out if ok and n_sites else []
        cache[key] = res
        return res

    def _calls_of_param_guarded(self, pname: str) -> bool:
        """Every call `pname(...)` in this function stands in the true branch of `callable(pname)` (if statement or
        conditional expression)."""
        prog = self.prog

        def is_guard(t: ast.expr) -> bool:
            return isinstance(t, ast.Call) and isinstance(t.func, ast.Name) and t.func.id == 'callable' and len(t.args) == 1 and \
                isinstance(t.args[0], ast.Name) and t.args[0].id == pname and prog.resolve_name(self.mod, 'callable') is None
        calls = [c for c in iter_own_nodes(self.fn.node) if isinstance(c, ast.Call) and isinstance(c.func, ast.Name) and c.func.id == pname]
        for c in calls:
            child, par, ok = c, prog.parent(c), False
            while par is not None and par is not self.fn.node:
                if isinstance(par, ast.IfExp) and child is par.body and is_guard(par.test):
                    ok = True
                if isinstance(par, ast.If) and child in par.body and is_guard(par.test):
                    ok = True
                child, par = par, prog.parent(par)
            if not ok:
                return False
        return bool(calls)

    def _callable_value(self, mod: 'Module', arg: ast.expr) -> bool:
        """May the value of `arg` (an expression at a call site in `mod`) be callable?  No for constants and displays, and for a
        call of a package function / class whose result is an instance of a package class without __call__ (or a str)."""
        prog = self.prog
        if isinstance(arg, (ast.Constant, ast.JoinedStr, ast.List, ast.Tuple, ast.Dict)):
            return False
        if isinstance(arg, ast.Call) and isinstance(arg.func, (ast.Name, ast.Attribute)):
            sym = prog.resolve_expr_symbol(mod, arg.func)
            t = None
            if isinstance(sym, ClassInfo):
                t = ('cls', sym.fq)
            elif isinstance(sym, FuncInfo) and sym.node.returns is not None:
                t = strip_opt(prog.ann_to_type(sym.module, sym.node.returns, sym.cls))
            if t is not None and t[0] == 'cls' and t[1] in prog.classes:
                return prog.lookup_method(prog.classes[t[1]], '__call__') is not None
            if t is not None and t[0] in ('str', 'int', 'bool', 'list', 'dict', 'set', 'tuple'):
                return False
        return True

    def _table_consts(self, x: ast.AST) -> List[Tuple[ast.AST, Module]]:
        """Module-level constant displays (dict / tuple / list / constructor call) of the package that the value of `x` may
        have been taken out of: followed through locals, tuple unpacking and calls of helper functions of this module."""
        prog = self.prog
        consts: List[Tuple[ast.AST, Module]] = []
        seen: Set[str] = set()
        seen_fn: Set[str] = set()
        self._scan_funcs: List[FuncInfo] = []

        def add(sym):
            if isinstance(sym, tuple) and sym[0] == 'const' and isinstance(sym[1], (ast.Dict, ast.Tuple, ast.List, ast.Call)):
                if not any(c is sym[1] for c, _m in consts):
                    consts.append((sym[1], sym[2]))

        def scan(x: ast.AST, env: 'TypeEnv', depth: int = 0):
            if depth > 6:
                return
            for n in ast.walk(x):
                if isinstance(n, ast.Name) and isinstance(n.ctx, ast.Load):
                    key = f'{env.fn.fq}:{n.id}'
                    if n.id in env._assign_sites and key not in seen:
                        seen.add(key)
                        for site in env._assign_sites[n.id]:
                            v = site
                            while isinstance(v, tuple) and v and v[0] == 'item':
                                v = v[1]
                            if isinstance(v, tuple) and len(v) > 1 and isinstance(v[1], ast.AST):
                                scan(v[1], env, depth + 1)
                    elif n.id not in env.vars and n.id not in env._assign_sites:
                        add(prog.resolve_name(env.mod, n.id))
                elif isinstance(n, ast.Attribute) and isinstance(n.ctx, ast.Load):
                    add(prog.resolve_expr_symbol(env.mod, n))
                    # a bound method handed around as a value (`return self._indent_line, self._bullet_line`)
                    if isinstance(n.value, ast.Name) and n.value.id in ('self', 'cls') and env.fn.cls is not None:
                        m_ = prog.lookup_method(env.fn.cls, n.attr)
                        if m_ is not None and not m_.is_property and not any(
                                isinstance(q, ast.Call) and q.func is n for q in ast.walk(x)):
                            if m_ not in self._scan_funcs:
                                self._scan_funcs.append(m_)
                if isinstance(n, ast.Call) and isinstance(n.func, (ast.Name, ast.Attribute)):
                    sym = prog.resolve_expr_symbol(env.mod, n.func)
                    if sym is None and isinstance(n.func, ast.Attribute) and isinstance(n.func.value, ast.Name) and \
                            n.func.value.id in ('self', 'cls') and env.fn.cls is not None:
                        sym = prog.lookup_method(env.fn.cls, n.func.attr)
                    if isinstance(sym, FuncInfo) and sym.fq not in seen_fn and sym.module.name.startswith(PKG):
                        seen_fn.add(sym.fq)
                        env2 = TypeEnv(prog, sym)
                        for r in iter_own_nodes(sym.node):
                            if isinstance(r, ast.Return) and r.value is not None:
                                scan(r.value, env2, depth + 1)

        scan(x, self)
        return consts

    def _table_callees(self, e: ast.Call) -> List[Any]:
        prog = self.prog
        f = e.func
        by_name_on = None          # getattr(obj, <name from a table>)(...)
        if isinstance(f, ast.Call) and isinstance(f.func, ast.Name) and f.func.id == 'getattr' and len(f.args) >= 2:
            by_name_on = f.args[0]
            consts = self._table_consts(f.args[1])
        else:
            consts = self._table_consts(f)
        if not consts and by_name_on is None and self._scan_funcs:
            return list(self._scan_funcs)
        if not consts:
            return []
        out: List[Any] = list(self._scan_funcs) if by_name_on is None else []
        for node, mod in consts:
            if by_name_on is not None:
                bt = strip_opt(self.type_of(by_name_on))
                cls = prog.classes.get(bt[1]) if bt[0] == 'cls' else None
                if cls is None:
                    return []
                for c in ast.walk(node):
                    if isinstance(c, ast.Constant) and isinstance(c.value, str):
                        m = prog.lookup_method(cls, c.value)
                        if m is not None and m not in out:
                            out.append(m)
            else:
                for c in ast.walk(node):
                    if isinstance(c, (ast.Name, ast.Attribute)) and isinstance(getattr(c, 'ctx', None), ast.Load):
                        par_is_call = False
                        sym = prog.resolve_expr_symbol(mod, c)
                        if isinstance(sym, FuncInfo) and sym not in out:
                            # a reference, not the callee of a call inside the display
                            in_lambda = {id(q_) for lam in ast.walk(node) if isinstance(lam, ast.Lambda) for q_ in ast.walk(lam.body)}
                            for q in ast.walk(node):
                                if isinstance(q, ast.Call) and q.func is c and id(q) not in in_lambda:
                                    par_is_call = True      # (what a lambda of the table calls IS called when the entry is called)
                            if not par_is_call:
                                out.append(sym)
        return out

    def _resolve_call_direct(self, e: ast.Call) -> List[Any]:
        prog = self.prog
        f = e.func
        out: List[Any] = []
        if isinstance(f, ast.Name) and f.id not in self.vars and f.id not in self._assign_sites:
            sym = prog.resolve_name(self.mod, f.id)
            # nested function of an enclosing function?
            fn: Optional[FuncInfo] = self.fn
            while fn is not None:
                if f.id in fn.nested:
                    return [fn.nested[f.id]]
                fn = fn.parent
            if sym is None:
                return [('builtin', f.id)]
            return self._sym_callees(sym)
        if isinstance(f, ast.Attribute) and isinstance(f.value, ast.Call) and isinstance(f.value.func, ast.Name) \
                and f.value.func.id == 'super' and self.fn.cls is not None:
            for a in prog.ancestors(self.fn.cls)[1:]:
                if isinstance(a, ClassInfo) and f.attr in a.methods:
                    return [a.methods[f.attr]]
            return [('builtin', f'object.{f.attr}')]
        if isinstance(f, ast.Attribute) and isinstance(f.value, ast.Name) and f.value.id in ('dict', 'str', 'int', 'bytes') and \
                f.value.id not in self.vars and f.value.id not in self._assign_sites and prog.resolve_name(self.mod, f.value.id) is None \
                and f.attr in ('fromkeys', 'maketrans', 'from_bytes', 'fromhex'):
            return [('builtin', f'{f.value.id}.{f.attr}')]      # alternative constructors of builtin types
        ft = self.type_of(f)
        if ft[0] == 'opt' and ft[1][0] == 'type':
            ft = ft[1]          # calling None is the caller's obligation (optional-call), the callees are those of the class
        if ft[0] == 'type':
            c = prog.classes.get(ft[1])
            if c is None:
                return []
            out = list(self._ctor_callees(c))
            if isinstance(f, ast.Name) and (f.id in self._assign_sites or f.id in self.vars):
                # a class object held in a variable may be any subclass of its static type
                for sub in prog.classes.values():
                    if sub is not c and prog.is_subclass(sub.fq, c.fq):
                        for x in self._ctor_callees(sub):
                            if not any(x is y or x == y for y in out):
                                out.append(x)
            return out
        if ft[0] == 'func':
            if isinstance(f, ast.Attribute) and isinstance(ft[1], FuncInfo) and ft[1].cls is not None and \
                    not ft[1].is_static and not isinstance(prog.resolve_expr_symbol(self.mod, f.value), ClassInfo):
                rt = strip_opt(self.type_of(f.value))
                rc = prog.classes.get(rt[1]) if rt[0] == 'cls' else None
                if rc is not None:
                    return prog.virtual_targets(rc, f.attr, ft[1])
            return [ft[1]]
        if ft[0] == 'strmethod':
            return [('builtin', f'str.{ft[1]}')]
        if ft[0] == 'collmethod':
            return [('builtin', f'{ft[1][0]}.{ft[2]}')]
        if isinstance(f, ast.Attribute):
            sym = prog.resolve_expr_symbol(self.mod, f)
            if sym is not None:
                return self._sym_callees(sym)
            bt = strip_opt(self.type_of(f.value))
            mods = [bt] if bt[0] == 'module' else [strip_opt(t) for t in bt[1]] if bt[0] == 'union' else []
            if mods and all(t[0] == 'module' for t in mods):
                # e.g. a loop variable over a list of package modules
                for t in mods:
                    fn_ = prog.modules[t[1]].functions.get(f.attr) if t[1] in prog.modules else None
                    if fn_ is not None:
                        out.append(fn_)
                if len(out) == len(mods):
                    return out
                out = []
            if bt[0] == 'extobj':
                # a method of an object made by the standard library (compiled pattern, hash object, lock ...)
                return [('ext', f'{bt[1]}().{f.attr}')]
            if bt[0] == 'union' and bt[1] and all(strip_opt(t)[0] in ('list', 'dict', 'set', 'tuple', 'str') for t in bt[1]) and \
                    f.attr in BUILTIN_METHOD_NAMES:
                return [('builtin', f'{strip_opt(bt[1][0])[0]}.{f.attr}')]
            if bt[0] == 'union':
                for t in bt[1]:
                    t = strip_opt(t)
                    if t[0] == 'cls' and t[1] in prog.classes:
                        m = prog.lookup_method(prog.classes[t[1]], f.attr)
                        if m:
                            out.append(m)
                if out:
                    return out
            if bt[0] == 'cls' and bt[1] in prog.classes and f.attr in ('_replace', '_asdict', '_make') and \
                    any(str(b).split('.')[-1] == 'NamedTuple' for b in prog.classes[bt[1]].bases):
                # generated by typing.NamedTuple; `_replace(field=...)` with the names of fields cannot fail
                flds = set(prog.class_fields(prog.classes[bt[1]]))
                if f.attr != '_replace' or (not e.args and all(k.arg in flds for k in e.keywords)):
                    return [('builtin', f'namedtuple.{f.attr}')]
            if bt[0] == 'cls' and bt[1] in prog.classes:
                # known class without such method -> attribute holding a callable; unknown
                return [('unknown', f.attr)]
            # class-hierarchy-by-name fallback (over-approximation)
            for c in prog.classes.values():
                if f.attr in c.methods:
                    out.append(c.methods[f.attr])
            if out:
                return [('byname', f.attr)] + out
            if f.attr in BUILTIN_METHOD_NAMES:
                return [('builtin', f'?.{f.attr}')]
            return [('unknown', f.attr)]
        return [('unknown', ast.unparse(f))]

    def _sym_callees(self, sym) -> List[Any]:
        if isinstance(sym, FuncInfo):
            return [sym]
        if isinstance(sym, ClassInfo):
            return self._ctor_callees(sym)
        if isinstance(sym, tuple) and sym[0] == 'ext':
            return [sym]
        return [('unknown', str(sym))]

    def _ctor_callees(self, c: ClassInfo) -> List[Any]:
        out: List[Any] = [('ctor', c)]
        for nm in ('__init__', '__post_init__'):
            m = self.prog.lookup_method(c, nm)
            if m:
                out.append(m)
        if c.is_dataclass:
            for _k, (_a, dflt, owner) in self.prog.class_fields(c).items():
                # default_factory=<callable>
                if isinstance(dflt, ast.Call) and getattr(dflt.func, 'id', getattr(dflt.func, 'attr', '')) == 'field':
                    for kw in dflt.keywords:
                        if kw.arg == 'default_factory':
                            s = self.prog.resolve_expr_symbol(owner.module, kw.value)
                            if isinstance(s, FuncInfo):
                                out.append(s)
        return out


# standard-library calls whose result is an opaque library object (its methods are library code, never package methods)
EXT_OBJECT_FACTORIES = {'re.compile', 'collections.deque', 'logging.getLogger', 'hashlib.md5', 'hashlib.sha1', 'hashlib.sha256',
                        'threading.Lock', 'threading.RLock', 'pathlib.Path', 'pathlib.PurePath', 'pathlib.PurePosixPath',
                        'pathlib.PureWindowsPath', 'pathlib.PosixPath', 'pathlib.WindowsPath'}

BUILTIN_METHOD_NAMES = {
    # str
    'split', 'rsplit', 'splitlines', 'strip', 'lstrip', 'rstrip', 'join', 'format', 'encode', 'decode', 'upper',
    'lower', 'title', 'capitalize', 'startswith', 'endswith', 'replace', 'ljust', 'rjust', 'zfill', 'isdigit',
    'isalpha', 'isidentifier', 'find', 'partition', 'casefold', 'removeprefix', 'removesuffix',
    # containers
    'append', 'extend', 'insert', 'pop', 'remove', 'clear', 'sort', 'reverse', 'update', 'add', 'discard',
    'setdefault', 'popitem', 'copy', 'count', 'index', 'get', 'keys', 'values', 'items', 'union', 'intersection',
    'difference', 'issubset', 'issuperset', 'isdisjoint',
    # misc
    'hexdigest', 'digest', 'read', 'write', 'close', 'group', 'groups',
}


def iter_own_nodes(fn_node: ast.AST) -> Iterable[ast.AST]:
    """All nodes of a function body excluding nested function/class definitions (lambdas included)."""
    stack = list(ast.iter_child_nodes(fn_node))
    while stack:
        n = stack.pop()
        if isinstance(n, (ast.FunctionDef, ast.AsyncFunctionDef, ast.ClassDef)):
            continue
        yield n
        stack.extend(ast.iter_child_nodes(n))


class CallGraph:
    """Call edges incl. implicit ones: property reads, str()/f-string -> __str__, + -> __add__,
    += -> __iadd__, attribute stores -> setters."""

    def __init__(self, prog: Program):
        self.prog = prog
        self.edges: Dict[str, List[Tuple[FuncInfo, ast.AST, str]]] = {}
        self.unresolved: Dict[str, List[Tuple[ast.AST, str]]] = {}
        self.envs: Dict[str, TypeEnv] = {}
        self.n_attr_calls = 0
        self.n_attr_by_type = 0
        for fn in prog.all_functions():
            self._build(fn)
        self.refined_params: Dict[str, Dict[str, tuple]] = {}
        for _round in range(2):
            if not self._refine_untyped_params():
                break

    def _refine_untyped_params(self) -> bool:
        """An unannotated parameter that is stringified (`str(p)` / f-string hole) would reach every __str__ of the package.
        When the function is only ever *called* (never handed around as a value) and every call site inside the package
        passes a value of known type, the parameter has the union of those types on every path that starts at a package
        entry point.  (Callers outside the package are not on such a path.)"""
        prog = self.prog
        cands = [fn for fn in prog.all_functions()
                 if fn.parent is None and any(k.endswith('-any') for _c, _n, k in self.edges.get(fn.fq, []))]
        if not cands:
            return False
        sites: Dict[str, List[Tuple[FuncInfo, ast.Call]]] = {}
        for fq, edges in self.edges.items():
            for c, n, k in edges:
                if k == 'call' and isinstance(n, ast.Call):
                    sites.setdefault(c.fq, []).append((prog.functions[fq], n))
        value_uses: Set[str] = set()
        for f in prog.all_functions():
            for n in iter_own_nodes(f.node):
                if isinstance(n, (ast.Name, ast.Attribute)) and isinstance(getattr(n, 'ctx', None), ast.Load):
                    par = prog.parent(n)
                    if not (isinstance(par, ast.Call) and par.func is n):
                        value_uses.add(n.id if isinstance(n, ast.Name) else n.attr)
        changed = False
        for fn in cands:
            ss = sites.get(fn.fq, [])
            if not ss or fn.name in value_uses or fn.node.args.vararg or fn.node.args.kwarg:
                continue
            params = fn.params()
            bound = fn.cls is not None and not fn.is_static and params and params[0].arg in ('self', 'cls')
            env = self.env(fn)
            pos = list(fn.node.args.posonlyargs) + list(fn.node.args.args)
            defaults = dict(zip([a.arg for a in pos[len(pos) - len(fn.node.args.defaults):]], fn.node.args.defaults))
            defaults.update({a.arg: d for a, d in zip(fn.node.args.kwonlyargs, fn.node.args.kw_defaults) if d is not None})
            for i, a in enumerate(params):
                if (bound and i == 0) or a.annotation is not None or env.vars.get(a.arg, ANY) != ANY:
                    continue
                types: List[tuple] = []
                for caller, call in ss:
                    if any(isinstance(x, ast.Starred) for x in call.args) or any(k.arg is None for k in call.keywords):
                        types = []
                        break
                    shift = 1 if bound and isinstance(call.func, ast.Attribute) and not isinstance(
                        prog.resolve_expr_symbol(caller.module, call.func.value), ClassInfo) else 0
                    j = i - shift
                    arg = call.args[j] if 0 <= j < len(call.args) else next((k.value for k in call.keywords if k.arg == a.arg), None)
                    if arg is None:
                        arg = defaults.get(a.arg)
                    if arg is None:
                        types = []
                        break
                    t = self.env(caller).type_of(arg)
                    if strip_opt(t) == ANY:
                        types = []
                        break
                    types.append(t)
                if types:
                    env.vars[a.arg] = union(types)
                    self.refined_params.setdefault(fn.fq, {})[a.arg] = env.vars[a.arg]
                    changed = True
            if fn.fq in self.refined_params:
                saved = (self.n_attr_calls, self.n_attr_by_type)
                self._build(fn)
                self.n_attr_calls, self.n_attr_by_type = saved
        return changed

    def env(self, fn: FuncInfo) -> TypeEnv:
        if fn.fq not in self.envs:
            self.envs[fn.fq] = TypeEnv(self.prog, fn)
        return self.envs[fn.fq]

    def _build(self, fn: FuncInfo):
        env = self.env(fn)
        prog = self.prog
        edges: List[Tuple[FuncInfo, ast.AST, str]] = []
        unresolved: List[Tuple[ast.AST, str]] = []

        def dunder(t: tuple, name: str, node, kind: str):
            t = strip_opt(t)
            if t == ANY and name == '__str__':
                # str()/f-string of a value of unknown type: may be any package object
                for c in prog.classes.values():
                    if name in c.methods:
                        edges.append((c.methods[name], node, kind + '-any'))
                return
            ts = t[1] if t[0] == 'union' else [t]
            for x in ts:
                x = strip_opt(x)
                if x[0] == 'cls' and x[1] in prog.classes:
                    m = prog.lookup_method(prog.classes[x[1]], name)
                    if m:
                        edges.append((m, node, kind))

        for n in iter_own_nodes(fn.node):
            if isinstance(n, ast.Call):
                callees = env.resolve_call(n)
                if isinstance(n.func, ast.Attribute):
                    self.n_attr_calls += 1
                    if callees and not (isinstance(callees[0], tuple) and callees[0][0] in ('byname', 'unknown')):
                        self.n_attr_by_type += 1
                for c in callees:
                    if isinstance(c, FuncInfo):
                        edges.append((c, n, 'call'))
                    elif isinstance(c, tuple) and c[0] == 'unknown':
                        unresolved.append((n, c[1]))
                if isinstance(n.func, ast.Name) and n.func.id == 'str' and n.args:
                    dunder(env.type_of(n.args[0]), '__str__', n, 'str')
            elif isinstance(n, ast.FormattedValue):
                dunder(env.type_of(n.value), '__str__', n, 'fstr')
            elif isinstance(n, ast.BinOp) and isinstance(n.op, ast.Add):
                dunder(env.type_of(n.left), '__add__', n, 'add')
            elif isinstance(n, ast.AugAssign) and isinstance(n.op, ast.Add):
                dunder(env.type_of(n.target), '__iadd__', n, 'iadd')
            elif isinstance(n, ast.Attribute):
                bt = strip_opt(env.type_of(n.value))
                ts = bt[1] if bt[0] == 'union' else [bt]
                for x in ts:
                    x = strip_opt(x)
                    if x[0] == 'cls' and x[1] in prog.classes:
                        c = prog.classes[x[1]]
                        if isinstance(n.ctx, ast.Load):
                            m = prog.lookup_method(c, n.attr)
                            if m and m.is_property:
                                edges.append((m, n, 'property'))
                        elif isinstance(n.ctx, ast.Store):
                            s = prog.lookup_setter(c, n.attr)
                            if s:
                                edges.append((s, n, 'setter'))
        self.edges[fn.fq] = edges
        self.unresolved[fn.fq] = unresolved

    def callees(self, fn: FuncInfo) -> List[FuncInfo]:
        seen, out = set(), []
        for c, _n, _k in self.edges.get(fn.fq, []):
            if c.fq not in seen:
                seen.add(c.fq)
                out.append(c)
        # nested functions defined in fn are considered reachable when fn is (they are called locally
        # or handed out); conservative
        for nf in fn.nested.values():
            if nf.fq not in seen:
                seen.add(nf.fq)
                out.append(nf)
        return out

    def reachable(self, roots: List[FuncInfo]) -> List[FuncInfo]:
        seen: Dict[str, FuncInfo] = {}
        stack = list(roots)
        while stack:
            f = stack.pop()
            if f.fq in seen:
                continue
            seen[f.fq] = f
            stack.extend(self.callees(f))
        return list(seen.values())

    def callers(self, target: FuncInfo) -> List[Tuple[FuncInfo, ast.AST, str]]:
        out = []
        for fq, edges in self.edges.items():
            for c, n, k in edges:
                if c.fq == target.fq:
                    out.append((self.prog.functions[fq], n, k))
        return out

    def n_edges(self) -> int:
        return sum(len(v) for v in self.edges.values())
